#!/usr/bin/env python3
"""(re)generate MANIFEST.json from the harness modules' metadata"""
import glob, importlib, json, os, sys
sys.path.insert(0, os.path.dirname(os.path.abspath(__file__)))
props = [json.loads(l) for l in open("properties.jsonl")]
checks, na = [], []
NA_REASONS = {}
for p in props:
    pid = p["id"]
    path = "bverif/harness/%s.py" % pid.lower()
    if not os.path.exists(path):
        na.append(dict(property_id=pid, reason=NA_REASONS.get(pid, "check not built yet (solver-based harness planned in DESIGN.md section 4; nothing is claimed for this property)")))
        continue
    H = importlib.import_module("bverif.harness.%s" % pid.lower())
    if getattr(H, "NOT_CLAIMED", None):
        na.append(dict(property_id=pid, reason=H.NOT_CLAIMED))
        continue
    checks.append(dict(
        property_id=pid,
        quick_cmd="./check %s --tier quick" % pid,
        thorough_cmd="./check %s --tier thorough" % pid,
        evidence_file="/verif/evidence/%s.json" % pid,
        replay_cmd_template="./check %s --replay {path}" % pid,
        engine="bverif",
        level_claimed=dict(category=getattr(H, "LEVEL", "model_checking"),
                           text=getattr(H, "LEVEL_TEXT", "Bounded symbolic execution of batchie's unmodified source (libraries replaced by validated models); every feasible path within the stated bounds is explored by solver-driven forking and every proof obligation on it is discharged by z3 (unsat of the negated property). Counterexamples are replayed on the real code before being reported. Bounds: " + H.BOUNDS.get("quick", "") ),
                           design_ref="DESIGN.md section 4 %s" % pid),
        level_note="Trusted base: z3; the library models listed under assumptions in the evidence file (validated against the installed libraries on concrete fixtures in every run); reals for floats. Outside the claim: " + "; ".join(getattr(H, "OUTSIDE", [])),
        technique=getattr(H, "TECHNIQUE", "SMT-decided symbolic execution of the real Python source (z3; path forking on solver-feasible branches; obligations unsat within stated bounds)"),
    ))
man = dict(
    version=1,
    setup_cmd="./check --setup",
    hooks=dict(guard="BATCHIE_VERIF", enable="none needed: the checks load /repo's unmodified source at run time; no hook commits exist",
               baseline_off_cmd="cd /repo && /venv/bin/python -m pytest -ra -q -p no:cacheprovider --timeout=900 --continue-on-collection-errors",
               source_commits=[], add_only=True),
    engines=[dict(name="bverif", path="/verif/bverif", serves_properties=[c["property_id"] for c in checks],
                  kind_free_text="dynamic symbolic executor over z3 running batchie's source with modelled numpy/pandas/h5py/scipy/os; CrossHair as cross-check")],
    checks=checks,
    not_applicable=na,
    notes="See DESIGN.md. exit 2 = inconclusive (never folded into pass).",
)
json.dump(man, open("MANIFEST.json", "w"), indent=1)
print("claimed:", [c["property_id"] for c in checks])
