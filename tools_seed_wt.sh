#!/bin/sh
# quick feedback without touching /repo: run the property's quick check against a worktree that has the change applied
WT="$1"; PROP="$2"
cd /verif
BVERIF_REPO="$WT" PYTHONPATH="$WT/src" ./check $PROP --tier quick --no-evidence 2>&1 | grep -v KNOWN | grep -E "tier=|VIOLATION|what:|INCONCLUSIVE" | cut -c1-330 | head -6
