"""A `set` whose iteration order over strings is chosen by the harness.

CPython iterates a set of strings in an order that depends on the per-process hash salt (PYTHONHASHSEED), so code
whose result depends on that order is not a function of its inputs.  Code under test that calls the builtin `set`
gets this class instead (loader: builtin override; replay on the real code: module attribute), and a harness can
run the same operation under two different orders and require equal results.  Sets of anything but concrete
strings iterate as usual."""

ORDER = ["asc"]


class OrderSet(set):
    def __iter__(self):
        items = list(set.__iter__(self))
        if len(items) >= 2 and all(isinstance(x, str) and type(x).__name__ != "SymStr" for x in items):
            return iter(sorted(items, reverse=(ORDER[0] == "desc")))
        return iter(items)
