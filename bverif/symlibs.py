"""Models of numpy.random, scipy.special / scipy.linalg, h5py, pandas, tqdm, math
(DESIGN.md section 3.3).  Every model here is part of the claim of the checks
that load it; anything not modelled raises ModelGap (=> inconclusive)."""
import math as _math
import sys
import types

import z3

from . import engine as E
from . import symnp as np
from .engine import SymInt, SymReal, SymBool, SymStr, ModelGap, is_sym, ite, lift
from .symnp import ndarray


# =========================================================================== numpy.random
def _callsite():
    """module:qualname of the innermost batchie frame, and the function called"""
    f = sys._getframe(2)
    while f is not None:
        fn = f.f_code.co_filename
        if "/batchie/" in fn and "bverif" not in fn or fn.endswith("scripts/batchie.py"):
            mod = f.f_globals.get("__name__", "?")
            return "%s:%s" % (mod, getattr(f.f_code, "co_qualname", f.f_code.co_name))
        f = f.f_back
    return "harness"


class Generator:
    """A named stream of fresh unknowns.  The same class drives the replay on the
    real code: there `backend` is the real numpy and picks / draws come from the
    counterexample (`source` dict) instead of the solver."""

    def __init__(self, stream, token=None, backend=None, source=None, prefix=None):
        self.stream = stream
        self.prefix = prefix or stream
        self.token = token
        self.count = 0
        self.npicks = 0
        self.ndraws = 0
        self.backend = backend
        self.source = source
        self.log = []
        self.picks = []

    def replayer(self, prefix, backend=None):
        """a generator that will return exactly the picks this one has returned so far (an 'identically seeded' twin)"""
        src = {"%s.pick%d" % (prefix, i): v for i, v in enumerate(self.picks)}
        return Generator(self.stream, backend=backend if backend is not None else self.backend, source=src, prefix=prefix)

    def reset(self):
        self.count = self.npicks = self.ndraws = 0
        self.log = []

    def spawn(self, n_children):
        """numpy's Generator.spawn: the children derive from the seed sequence and from how often it has spawned before
        (a hidden counter), not from the generator's state.  Recorded, so that a harness can say so."""
        self._spawned = getattr(self, "_spawned", 0)
        self.log.append(("spawn", n_children))
        if not self.concrete:
            E.cur().draws.append(dict(stream="S", method="spawn", site=_callsite(), params=None))
        kids = [Generator("S", backend=self.backend, source=self.source, prefix="%s.spawn%d_%d" % (self.prefix, self._spawned, i))
                for i in range(int(n_children))]
        self._spawned += int(n_children)
        return kids

    # ---- plumbing
    @property
    def concrete(self):
        return self.source is not None

    def _log(self, method, params=None):
        self.count += 1
        self.log.append((method, params))
        if not self.concrete:
            E.cur().draws.append(dict(stream=self.stream, method=method, site=_callsite(), params=params))

    def _one(self, kind, positive=False, unit=False):
        name = "%s.%s%d" % (self.prefix, kind, self.ndraws)
        self.ndraws += 1
        if self.concrete:
            v = self.source.get(name)
            if v is None:
                v = 0.5 if (positive or unit) else 0.25
            return float(v)
        eng = E.cur()
        c = eng._register(name, z3.Real(name))
        if positive:
            eng.solver.add(c > 0)
        if unit:
            eng.solver.add(z3.And(c >= 0, c < 1))
        return SymReal(c)

    def _mk(self, vals, shape, dt):
        if self.concrete:
            return self.backend.array(vals, dtype={"f8": float, "i8": int, "b": bool, "U": str}.get(dt, object)).reshape(shape)
        return ndarray.fresh(vals, shape, dt)

    def _fresh_like(self, size, kind, positive=False, unit=False, template=None):
        if size is None and template is not None and hasattr(template, "shape") and template.shape != ():
            n = 1
            for s in template.shape:
                n *= s
            return self._mk([self._one(kind, positive, unit) for _ in range(n)], tuple(template.shape), "f8")
        if size is None:
            return self._one(kind, positive, unit)
        shape = np._shape(size)
        return self._mk([self._one(kind, positive, unit) for _ in range(np.prod_(shape))], shape, "f8")

    def _isarr(self, x):
        return hasattr(x, "shape") and hasattr(x, "dtype") and getattr(x, "shape", ()) != ()

    def normal(self, loc=0.0, scale=1.0, size=None):
        self._log("normal", (loc, scale))
        t = scale if self._isarr(scale) else (loc if self._isarr(loc) else None)
        return self._fresh_like(size, "normal", template=t)

    def standard_normal(self, size=None):
        return self.normal(size=size)

    def gamma(self, shape, scale=1.0, size=None):
        self._log("gamma", (shape, scale))
        t = scale if self._isarr(scale) else (shape if self._isarr(shape) else None)
        return self._fresh_like(size, "gamma", positive=True, template=t)

    def random(self, size=None):
        self._log("random")
        return self._fresh_like(size, "random", unit=True)

    def uniform(self, low=0.0, high=1.0, size=None):
        raise ModelGap("rng.uniform")

    def _pick(self, n, what):
        """an arbitrary index in range(n), realised by solver-driven forking"""
        if n <= 0:
            raise ValueError("a must be non-empty")
        if n == 1:
            return 0
        name = "%s.pick%d" % (self.prefix, self.npicks)
        if getattr(self, "shared", False):
            # generators made from one concrete seed return the same values for the same sequence of requests
            name = "%s.pick%d_%s_%d" % (self.prefix, self.npicks, what, n)
        self.npicks += 1
        if self.concrete:
            v = int(self.source.get(name, 0))
            v = v if 0 <= v < n else 0
            self.picks.append(v)
            return v
        eng = E.cur()
        v = eng._register(name, z3.Int(name))
        eng.solver.add(z3.And(v >= 0, v < n))
        r = eng.concretize(v)
        self.picks.append(r)
        return r

    def _dtcode(self, a):
        if isinstance(a, ndarray):
            return a._dt
        k = a.dtype.kind
        return {"f": "f8", "i": "i8", "b": "b", "U": "U", "O": "O"}.get(k, "O")

    def permutation(self, x):
        self._log("permutation")
        if isinstance(x, (int, SymInt)):
            x = (self.backend if self.concrete else np).arange(int(x))
        if not hasattr(x, "shape"):
            x = (self.backend if self.concrete else np).array(x)
        if len(x.shape) != 1:
            raise ModelGap("permutation of ndim>1")
        items = list(x.flat) if isinstance(x, ndarray) else list(x)
        out = []
        while items:
            out.append(items.pop(self._pick(len(items), "perm")))
        return self._mk(out, tuple(x.shape), self._dtcode(x))

    def shuffle(self, x):
        raise ModelGap("rng.shuffle")

    def choice(self, a, size=None, replace=True, p=None):
        self._log("choice", (size, replace))
        if p is not None:
            raise ModelGap("rng.choice with p")
        if isinstance(a, (int, SymInt)) and not isinstance(a, bool):
            pool = list(range(int(a)))
            dt = "i8"
        elif hasattr(a, "shape") and hasattr(a, "dtype"):
            if len(a.shape) != 1:
                raise ValueError("a must be 1-dimensional")
            pool, dt = (list(a.flat) if isinstance(a, ndarray) else list(a)), self._dtcode(a)
        else:
            pool = list(a)
            dt = None
        if size is not None and not isinstance(size, (tuple, list)):
            size = int(size)
        if not pool and (size is None or np.prod_(np._shape(size)) > 0):
            raise ValueError("a cannot be empty unless no samples are taken")
        if size is None:
            v = pool[self._pick(len(pool), "choice")]
            return v if self.concrete else np._box(v)
        shape = np._shape(size)
        k = np.prod_(shape)
        out = []
        if replace:
            for _ in range(k):
                out.append(pool[self._pick(len(pool), "choice")])
        else:
            if k > len(pool):
                raise ValueError("Cannot take a larger sample than population when replace is False")
            rest = list(pool)
            for _ in range(k):
                out.append(rest.pop(self._pick(len(rest), "choice")))
        if dt is None:
            if out and all(isinstance(v, (int,)) and not isinstance(v, bool) for v in out):
                dt = "i8"
            elif out and all(isinstance(v, str) for v in out):
                dt = "U"
            elif out and all(isinstance(v, float) for v in out):
                dt = "f8"
            else:
                dt = "O" if out else "f8"
        if dt == "O" and self.concrete:
            r = self.backend.empty(len(out), dtype=object)
            for i, v in enumerate(out):
                r[i] = v
            return r.reshape(shape)
        return self._mk(out, shape, dt)

    def integers(self, *a, **k):
        raise ModelGap("rng.integers")

    @property
    def bit_generator(self):
        """the underlying bit generator: reading raw words from it advances the stream like any other draw"""
        return _BitGenerator(self)


class _BitGenerator:
    def __init__(self, g):
        self._g = g

    def random_raw(self, size=None, output=True):
        self._g._log("random_raw")
        k = self._g._pick(4, "random_raw")
        return (0x9E3779B97F4A7C15 * (k + 1)) % (1 << 64) if size is None else [((0x9E3779B97F4A7C15 * (k + 1 + i)) % (1 << 64)) for i in range(int(size))]

    @property
    def state(self):
        return dict(bit_generator="model", token=self._g.token, count=self._g.count)


class SeedChild:
    def __init__(self, seed, index):
        self.token = ("child", seed, index)


class _SpawnList:
    def __init__(self, seed, n, offset=0):
        self.seed, self.n, self.offset = seed, n, offset

    def __len__(self):
        return int(self.n)

    def __getitem__(self, i):
        ok = (i >= -self.n) & (i < self.n) if (is_sym(i) or is_sym(self.n)) else (-self.n <= i < self.n)
        if not bool(ok):
            raise IndexError("list index out of range")
        if bool(i < 0):
            i = i + self.n
        return SeedChild(self.seed, i + self.offset)


class SeedSequence:
    def __init__(self, entropy=None):
        self.entropy = entropy
        self.n_children_spawned = 0

    def spawn(self, n):
        # numpy: spawning is stateful - the children of a second spawn() continue where the first stopped
        r = _SpawnList(self.entropy, n, self.n_children_spawned)
        self.n_children_spawned = self.n_children_spawned + n
        return r

    def generate_state(self, n):
        return [("state", self.entropy, i) for i in range(n)]


def _gen_prefix(stream):
    """generators created by the code under test get distinct symbol-name prefixes (E0, E1, seeded0, ...)"""
    eng = E.CUR
    n = getattr(eng, "gen_count", 0) if eng is not None else 0
    if eng is not None:
        eng.gen_count = n + 1
    return "%s%d" % (stream, n)


def default_rng(seed=None):
    if seed is None:
        return Generator("E", prefix=_gen_prefix("E"))
    if isinstance(seed, SeedChild):
        return Generator("seeded", seed.token, prefix=_gen_prefix("seeded"))
    if isinstance(seed, Generator):
        return seed
    if isinstance(seed, int) and not isinstance(seed, bool):
        _gen_prefix("seeded")
        g = Generator("seeded", ("seed", seed), prefix="seed=%d" % seed)
        g.shared = True
        return g
    return Generator("seeded", ("seed", seed), prefix=_gen_prefix("seeded"))


GLOBAL_SEED_CALLS = []


def make_random_module():
    m = types.ModuleType("numpy.random")
    g = Generator("G")
    m.Generator = Generator
    m.BitGenerator = Generator
    m.SeedSequence = SeedSequence
    m.default_rng = default_rng
    for meth in ("normal", "gamma", "random", "permutation", "choice", "standard_normal"):
        setattr(m, meth, getattr(g, meth))
    m.rand = lambda *shape: g.random(shape or None)

    def seed(s=None):
        E.cur().draws.append(dict(stream="G", method="seed", site=_callsite(), params=None))
    m.seed = seed
    m._global = g
    return m


# =========================================================================== scipy
def _elementwise(uf, numeric):
    def f(a):
        def one(x):
            x = np._unbox(x)
            if is_sym(x):
                if isinstance(x, (SymInt, SymBool)):
                    x = np._cast(x, "f8")
                return SymReal(uf(x.e))
            x = float(x)
            if x != x:
                return x
            if np.CONCRETE_MATH:
                return numeric(x)
            return SymReal(uf(lift(x)))
        if isinstance(a, ndarray):
            return np._ufunc1(a, one, a._dt if a._dt in ("f4", "f8") else "f8")
        if isinstance(a, (list, tuple)):
            return np._ufunc1(np.array(a), one, "f8")
        return one(a)
    return f


def _nexpit(x):
    if x >= 0:
        return 1.0 / (1.0 + _math.exp(-x))
    e = _math.exp(x)
    return e / (1.0 + e)


def _nlogit(x):
    if x <= 0 or x >= 1:
        return float("nan") if (x < 0 or x > 1) else (float("-inf") if x == 0 else float("inf"))
    return _math.log(x / (1.0 - x))


expit = _elementwise(E.EXPIT, _nexpit)
logit = _elementwise(E.LOGIT, _nlogit)


def logsumexp(a, axis=None):
    a = np._as(a)
    ninf = float("-inf")

    def red(vals):
        terms = [v for v in vals if not (isinstance(v, float) and v == ninf)]
        if not terms:
            return ninf
        if np.CONCRETE_MATH and all(isinstance(v, (int, float)) for v in terms):
            m = max(terms)  # concrete validation mode: the numerically stable evaluation scipy uses
            if m == float("inf"):
                return m
            return m + _math.log(sum(_math.exp(v - m) for v in terms))
        s = None
        for v in terms:
            e = np.exp(v)
            s = e if s is None else s + e
        return np.log(s)
    if axis is None:
        return red(a.flat)
    if axis < 0:
        axis += a.ndim
    out_shape = a.shape[:axis] + a.shape[axis + 1:]
    vals = []
    for pos in np._unravel(out_shape):
        key = pos[:axis] + (slice(None),) + pos[axis:]
        vals.append(red(a[key].flat))
    return ndarray.fresh(vals, out_shape, "f8")


def comb(n, k, exact=False):
    n, k = int(n), int(k)
    if n < 0 or k < 0 or k > n:
        return 0
    return _math.comb(n, k)


LAPACK_CALLS = []


def cholesky(Q):
    """fresh lower-triangular L with positive diagonal and L L^T = Q (LinAlgError paths excluded)"""
    eng = E.cur()
    Q = np._as(Q)
    n = Q.shape[0]
    L = [[0.0] * n for _ in range(n)]
    for i in range(n):
        for j in range(i + 1):
            L[i][j] = eng.fresh_real("chol", positive=(i == j))
    q = Q.tolist()
    for i in range(n):
        for j in range(i + 1):
            s = 0.0
            for k in range(j + 1):
                s = s + L[i][k] * L[j][k]
            eng.solver.add(lift(s == q[i][j]))
    return np.array(L, dtype=float)


def solve_triangular(A, b, lower=False, **kw):
    """fresh x with tri(A) x = b, using only the triangle LAPACK reads"""
    eng = E.cur()
    A, b = np._as(A), np._as(b)
    n = A.shape[0]
    a = A.tolist()
    bv = b.tolist()
    x = [eng.fresh_real("trsv") for _ in range(n)]
    for i in range(n):
        cols = range(0, i + 1) if lower else range(i, n)
        s = 0.0
        for j in cols:
            s = s + a[i][j] * x[j]
        c = s == bv[i]
        eng.solver.add(lift(c))
    return np.array(x, dtype=float)


def cho_solve(c_and_lower, b, **kw):
    """fresh y with A y = b where A = c^T c (upper) or c c^T (lower), reading one triangle of c"""
    eng = E.cur()
    c, lower = c_and_lower
    c, b = np._as(c), np._as(b)
    n = c.shape[0]
    cl = c.tolist()
    tri = [[(cl[i][j] if ((j <= i) if lower else (j >= i)) else 0.0) for j in range(n)] for i in range(n)]
    y = [eng.fresh_real("potrs") for _ in range(n)]
    bv = b.tolist()
    for i in range(n):
        s = 0.0
        for j in range(n):
            aij = 0.0
            for k in range(n):
                aij = aij + (tri[i][k] * tri[j][k] if lower else tri[k][i] * tri[k][j])
            s = s + aij * y[j]
        eng.solver.add(lift(s == bv[i]))
    return np.array(y, dtype=float)


def make_scipy():
    sp = types.ModuleType("scipy")
    sps = types.ModuleType("scipy.special")
    spl = types.ModuleType("scipy.linalg")
    sps.logit, sps.expit, sps.logsumexp, sps.comb = logit, expit, logsumexp, comb
    spl.solve_triangular, spl.cho_solve = solve_triangular, cho_solve
    sp.special, sp.linalg = sps, spl
    return {"scipy": sp, "scipy.special": sps, "scipy.linalg": spl}


# =========================================================================== h5py
class H5Store:
    files = {}


def h5_reset():
    H5Store.files = {}
    MemFiles.files = {}


class _Attrs:
    def __init__(self):
        self.d = {}

    @staticmethod
    def _conv(v):
        v = np._unbox(v)
        if isinstance(v, ndarray):
            return v.copy()
        if isinstance(v, (SymStr, str, int, float, bool)) or is_sym(v):
            return v
        if isinstance(v, (list, tuple, dict)) or v is None:
            raise TypeError("Object dtype has no native HDF5 equivalent")
        return v

    def create(self, k, v):
        self.d[k] = self._conv(v)

    def __setitem__(self, k, v):
        self.d[k] = self._conv(v)

    def __getitem__(self, k):
        v = self.d[k]
        return np._box(v) if not isinstance(v, ndarray) else v.copy()

    def __contains__(self, k):
        return k in self.d

    def get(self, k, default=None):
        return self[k] if k in self.d else default

    def items(self):
        return [(k, self[k]) for k in sorted(self.d)]

    def keys(self):
        return sorted(self.d)

    def values(self):
        return [self[k] for k in sorted(self.d)]

    def __iter__(self):
        return iter(sorted(self.d))

    def __len__(self):
        return len(self.d)

    def __delitem__(self, k):
        del self.d[k]

    def modify(self, k, v):
        self.d[k] = self._conv(v)


class _Dataset:
    def __init__(self, arr):
        self.arr = arr

    @property
    def shape(self):
        return self.arr.shape

    @property
    def dtype(self):
        return self.arr.dtype

    def __len__(self):
        return len(self.arr)

    def __getitem__(self, key):
        if key == () or key is Ellipsis:
            return self.arr.copy() if self.arr.ndim else self.arr.item()
        r = self.arr[key]
        return r.copy() if isinstance(r, ndarray) else r


class _Group:
    def __init__(self):
        self.members = {}
        self.attrs = _Attrs()

    def create_group(self, name):
        name = str(name)
        if name in self.members:
            raise ValueError("Unable to create group (name already exists)")
        g = _Group()
        self.members[name] = g
        return g

    def create_dataset(self, name, data=None, compression=None, dtype=None, shape=None, **kw):
        if name in self.members:
            raise ValueError("Unable to create dataset (name already exists)")
        if data is None:
            raise ModelGap("h5 create_dataset without data")
        if not isinstance(data, ndarray):
            data = np.array(data)
        if data._dt == "U":
            raise TypeError("No conversion path for dtype: dtype('<U')")
        if data._dt == "O":
            raise ModelGap("h5 object-dtype dataset")
        if dtype is not None:
            data = data.astype(dtype)
        ds = _Dataset(data.copy())
        self.members[name] = ds
        return ds

    def require_dataset(self, name, shape=None, dtype=None, exact=False, data=None, **kw):
        """h5py: open the dataset if it exists (its contents are kept, `data` is ignored), create it otherwise; an existing
        dataset of another shape (or of a dtype that cannot be cast safely) is a TypeError"""
        if name not in self.members:
            return self.create_dataset(name, data=data, dtype=dtype, shape=shape, **kw)
        ds = self.members[name]
        if not isinstance(ds, _Dataset):
            raise TypeError("Incompatible object (%s) already exists" % type(ds).__name__)
        want = tuple(int(x) for x in (shape if isinstance(shape, (tuple, list)) else (shape,))) if shape is not None else None
        if want is not None and tuple(ds.arr.shape) != want:
            raise TypeError("Shapes do not match (existing %s vs new %s)" % (tuple(ds.arr.shape), want))
        if dtype is not None and np._dt(dtype) != ds.arr._dt:
            if exact or (ds.arr._dt, np._dt(dtype)) not in (("f4", "f8"), ("i8", "f8"), ("b", "i8"), ("b", "f8")):
                raise TypeError("Datatypes cannot be safely cast (existing %s vs new %s)" % (ds.arr._dt, np._dt(dtype)))
        return ds

    def require_group(self, name):
        if name in self.members:
            return self.members[name]
        return self.create_group(name)

    def __delitem__(self, name):
        if name not in self.members:
            raise KeyError("Couldn't delete link (name doesn't exist)")
        del self.members[name]

    def __getitem__(self, name):
        if name not in self.members:
            raise KeyError("Unable to open object (object '%s' doesn't exist)" % name)
        return self.members[name]

    def __contains__(self, name):
        return name in self.members

    def keys(self):
        return sorted(self.members)  # HDF5 iterates links in ASCII name order

    def __iter__(self):
        return iter(self.keys())

    def items(self):
        return [(k, self.members[k]) for k in self.keys()]


class File(_Group):
    def __new__(cls, path, mode="r", **kw):
        path = str(path) if not isinstance(path, str) else path
        if mode == "w":
            f = object.__new__(cls)
            _Group.__init__(f)
            H5Store.files[path] = f
            return f
        if mode == "r":
            if path not in H5Store.files:
                raise FileNotFoundError("Unable to open file (unable to open file: name = '%s')" % path)
            return H5Store.files[path]
        if mode in ("a", "r+"):
            if path in H5Store.files:
                return H5Store.files[path]
            if mode == "r+":
                raise FileNotFoundError("Unable to open file (unable to open file: name = '%s')" % path)
            f = object.__new__(cls)
            _Group.__init__(f)
            H5Store.files[path] = f
            return f
        if mode in ("w-", "x"):
            if path in H5Store.files:
                raise FileExistsError("Unable to create file (file exists)")
            f = object.__new__(cls)
            _Group.__init__(f)
            H5Store.files[path] = f
            return f
        raise ModelGap("h5py.File mode %r" % mode)

    def __init__(self, path, mode="r", **kw):
        pass

    def __enter__(self):
        return self

    def __exit__(self, *a):
        return False

    def close(self):
        pass


def make_h5py():
    m = types.ModuleType("h5py")
    m.File = File
    m.Group = _Group
    m.Dataset = _Dataset
    return m


# =========================================================================== pandas
class _option_context:
    def __init__(self, *a):
        pass

    def __enter__(self):
        return self

    def __exit__(self, *a):
        return False


def _t(b):
    return bool(b)


class _Index:
    def __init__(self, vals):
        self.vals = list(vals)

    def __sub__(self, o):
        return Series([a - b for a, b in zip(self.vals, o.vals)])

    def __getitem__(self, mask):
        return _Index([v for v, m in zip(self.vals, mask.vals) if _t(m)])

    def __len__(self):
        return len(self.vals)


class Series:
    def __init__(self, vals, kind=None):
        self.vals = list(vals)

    def _b(self, o, f):
        if isinstance(o, ndarray):
            if o.shape != (len(self.vals),):
                raise ValueError("operands could not be broadcast together")
            ov = o.flat
        else:
            ov = o.vals if isinstance(o, Series) else [o] * len(self.vals)
        return Series([f(a, b) for a, b in zip(self.vals, ov)])

    def __le__(self, o): return self._b(o, lambda a, b: a <= b)
    def __lt__(self, o): return self._b(o, lambda a, b: a < b)
    def __ge__(self, o): return self._b(o, lambda a, b: a >= b)
    def __gt__(self, o): return self._b(o, lambda a, b: a > b)
    def __eq__(self, o): return self._b(o, np._eq)
    def __ne__(self, o): return self._b(o, lambda a, b: np._not(np._eq(a, b)))
    def __or__(self, o): return self._b(o, np._or)
    def __and__(self, o): return self._b(o, np._and)
    __ror__ = __or__
    __rand__ = __and__
    def __add__(self, o): return self._b(o, np._add)
    def __sub__(self, o): return self._b(o, np._sub)
    def __mul__(self, o): return self._b(o, np._mul)
    def abs(self): return Series([abs(v) for v in self.vals])
    def __invert__(self): return Series([np._not(v) for v in self.vals])
    __hash__ = None

    def __len__(self):
        return len(self.vals)

    def cumsum(self):
        out, acc = [], None
        for v in self.vals:
            acc = np._addv(acc, v)
            out.append(acc)
        return Series(out)

    def notna(self):
        return Series([not (v is None or np._isnan1(v)) for v in self.vals])

    def isna(self):
        return Series([(v is None or np._isnan1(v)) for v in self.vals])

    notnull, isnull = notna, isna

    def shift(self, periods=1, fill_value=None):
        if periods < 0:
            raise ModelGap("Series.shift with negative periods")
        return Series(([fill_value] * periods + self.vals)[:len(self.vals)])

    @property
    def values(self):
        return self.to_numpy()

    def to_numpy(self, dtype=None, copy=False):
        if dtype is not None:
            return self.to_numpy().astype(dtype)
        vals = [np._unbox(v) for v in self.vals]
        if not vals:
            return ndarray.fresh([], (0,), "O")
        if any(v is None for v in vals):
            return ndarray.fresh([float("nan") if v is None else np._cast(v, "f8") for v in vals], (len(vals),), "f8")
        dt = np._infer_dt(vals)
        if dt == "U":
            dt = "O"  # pandas keeps strings as object dtype
        return ndarray.fresh([np._cast(v, dt) for v in vals], (len(vals),), dt)


class _Loc:
    def __init__(self, df):
        self.df = df

    def __setitem__(self, key, value):
        sel, col = key
        if isinstance(sel, Series) or (isinstance(sel, ndarray) and sel._dt == "b"):
            # boolean row mask
            flags = list(sel.vals) if isinstance(sel, Series) else list(sel.flat)
            if len(flags) != len(self.df):
                raise IndexError("Boolean index has wrong length")
            for i, f in enumerate(flags):
                if _t(f):
                    self.df.cols[col][i] = value
            return
        labels = sel.vals if isinstance(sel, _Index) else list(sel)
        pos = {lab: i for i, lab in enumerate(self.df._index)}
        for lab in labels:
            self.df.cols[col][pos[lab]] = value


class DataFrame:
    def __init__(self, data=None, index=None, columns=None):
        self.cols = {}
        if isinstance(data, ndarray):
            self.values = data
            self._index = list(index) if index is not None else list(range(data.shape[0]))
            self.columns = list(columns) if columns is not None else None
            return
        n = None
        for k, v in (data or {}).items():
            if isinstance(v, ndarray):
                if v.ndim != 1:
                    raise ValueError("Per-column arrays must each be 1-dimensional")
                vals = list(v.flat)
            elif isinstance(v, Series):
                vals = list(v.vals)
            else:
                vals = list(v)
            if n is not None and len(vals) != n:
                raise ValueError("All arrays must be of the same length")
            n = len(vals)
            self.cols[k] = [np._unbox(x) for x in vals]
        self._index = list(range(n or 0)) if index is None else list(index)

    def __len__(self):
        return len(self._index)

    def _rows(self, names):
        return [tuple(self.cols[c][i] for c in names) for i in range(len(self))]

    def _take(self, pos):
        return DataFrame({k: [v[i] for i in pos] for k, v in self.cols.items()}, [self._index[i] for i in pos])

    def drop_duplicates(self, subset=None):
        names = list(self.cols) if subset is None else ([subset] if isinstance(subset, str) else list(subset))
        rows = self._rows(names)
        keep = []
        if _all_plain(rows):  # concrete keys: same result through a hash table
            seen = set()
            for i, r in enumerate(rows):
                if r not in seen:
                    seen.add(r)
                    keep.append(i)
            return self._take(keep)
        for i, r in enumerate(rows):
            if not any(all(_t(np._eq(a, b)) for a, b in zip(r, rows[j])) for j in keep):
                keep.append(i)
        return self._take(keep)

    def round(self, decimals=0):
        """DataFrame.round: numeric columns named in the dict (or all, for an int) are rounded half-to-even like numpy"""
        from .engine import SymReal as _SR, SymInt as _SI
        which = decimals if isinstance(decimals, dict) else {c: decimals for c in self.cols}
        out = {}
        for c, vals in self.cols.items():
            if c not in which:
                out[c] = list(vals)
                continue
            new = []
            for v in vals:
                v0 = np._unbox(v)
                if isinstance(v0, _SR):
                    raise ModelGap("DataFrame.round of a symbolic real")
                new.append(float(round(v0, which[c])) if isinstance(v0, float) else v)
            out[c] = new
        return DataFrame(out, self._index)

    def sort_values(self, by):
        by = [by] if isinstance(by, str) else list(by)
        rows = self._rows(by)
        order = np._sort_positions(rows, np._lex_less)
        return self._take(order)

    def reset_index(self, drop=False):
        d = dict(self.cols)
        if not drop:
            d = {"index": list(self._index), **d}
        return DataFrame(d)

    def rename(self, columns):
        return DataFrame({columns.get(k, k): v for k, v in self.cols.items()}, self._index)

    def __getitem__(self, k):
        return Series(self.cols[k])

    def __setitem__(self, k, v):
        vals = list(v.vals) if isinstance(v, Series) else list(v.flat) if isinstance(v, ndarray) else list(v)
        if len(vals) != len(self):
            raise ValueError("Length of values does not match length of index")
        self.cols[k] = vals

    def __delitem__(self, k):
        del self.cols[k]

    def __getattr__(self, k):
        if k in ("cols", "_index", "values", "columns"):
            raise AttributeError(k)
        if k in self.cols:
            return Series(self.cols[k])
        raise AttributeError(k)

    @property
    def index(self):
        return _Index(self._index)

    @property
    def loc(self):
        return _Loc(self)

    def merge(self, right, on, how):
        if how != "left":
            raise ModelGap("merge how=%r" % how)
        lrows, rrows = self._rows(on), right._rows(on)
        extra = [c for c in right.cols if c not in on]
        out = {c: [] for c in list(self.cols) + extra}
        table = None
        if _all_plain(lrows) and _all_plain(rrows):  # concrete keys: same matches, in the same order, through a hash table
            table = {}
            for j, rr in enumerate(rrows):
                table.setdefault(rr, []).append(j)
        for i, lr in enumerate(lrows):
            if table is not None:
                ms = table.get(lr, [])
            else:
                ms = [j for j, rr in enumerate(rrows) if all(_t(np._eq(a, b)) for a, b in zip(lr, rr))]
            for j in (ms or [None]):
                for c in self.cols:
                    out[c].append(self.cols[c][i])
                for c in extra:
                    out[c].append(None if j is None else right.cols[c][j])
        return DataFrame(out)


def _all_plain(rows):
    """every key value is a concrete, hashable Python value whose == is the model's equality (no symbolic value, no NaN)"""
    for r in rows:
        for v in r:
            t = type(v)
            if t is str or t is int or t is bool:
                continue
            if t is float and v == v:
                continue
            return False
    return True


def make_pandas():
    m = types.ModuleType("pandas")
    m.DataFrame = DataFrame
    m.Series = Series
    m.option_context = _option_context
    return m


# =========================================================================== tqdm, math
def make_tqdm():
    m = types.ModuleType("tqdm")

    class tqdm:
        def __init__(self, iterable=None, total=None, disable=False, **kw):
            self.iterable = iterable

        def __iter__(self):
            return iter(self.iterable)

        def update(self, n=1):
            pass

        def close(self):
            pass

    def trange(n, **kw):
        return range(n)
    m.tqdm = tqdm
    m.trange = trange
    return m


def make_math():
    m = types.ModuleType("math")
    m.__dict__.update({k: v for k, v in _math.__dict__.items() if not k.startswith("__")})

    def ceil(x):
        x = np._unbox(x)
        if isinstance(x, SymInt):
            return x
        if isinstance(x, SymReal):
            return np.sym_ceil(x)
        return _math.ceil(x)

    def floor(x):
        x = np._unbox(x)
        if isinstance(x, SymInt):
            return x
        if isinstance(x, SymReal):
            return -np.sym_ceil(-x)
        return _math.floor(x)
    m.ceil, m.floor = ceil, floor
    return m


# =========================================================================== in-memory text files
class MemFiles:
    files = {}


class _MemFile:
    def __init__(self, path, mode):
        self.path, self.mode = path, mode
        if "w" in mode:
            MemFiles.files[path] = ""
        elif path not in MemFiles.files:
            raise FileNotFoundError(path)
        self.pos = 0

    def write(self, s):
        MemFiles.files[self.path] += s
        return len(s)

    def read(self):
        return MemFiles.files[self.path]

    def __enter__(self):
        return self

    def __exit__(self, *a):
        return False

    def close(self):
        pass


def mem_open(path, mode="r", *a, **k):
    if isinstance(path, str) and path.startswith("/mem/"):
        return _MemFile(path, mode)
    import builtins
    return builtins.open(path, mode, *a, **k)


def make_warnings():
    """batchie wraps three sampler updates in a bare `except:` that only warns: under the engine a swallowed
    exception is never counted as an explored path"""
    import warnings as _w
    m = types.ModuleType("warnings")
    m.__dict__.update({k: v for k, v in _w.__dict__.items() if not k.startswith("__")})

    def warn(message, *a, **k):
        if E.CUR is not None:
            E.CUR.latched = E.CUR.latched or E.Inconclusive("the code under test swallowed an exception and warned: %s" % (message,))
            raise E.CUR.latched
        return _w.warn(message, *a, **k)
    m.warn = warn
    return m
