"""Two-mode harness context (DESIGN.md section 3.4).

A harness is written once against a Ctx:

* mode "sym":  batchie loaded through bverif.loader (modelled libraries), inputs are
               engine symbols, prove/assume talk to z3;
* mode "real": batchie imported normally (real numpy/pandas/h5py/scipy), inputs come
               from a counterexample / fixture dict, prove is an ordinary check.  This is
               the replay that confirms a solver counterexample on the real code;
* mode "shim": modelled libraries with concrete inputs - used to validate the models
               against the real libraries (observations of both runs are compared).
"""
import importlib
import math
import os
import tempfile
from fractions import Fraction

from . import engine as E
from . import symnp, symlibs, loader


def atom_to_str(v):
    """order-preserving injective map from integer atoms to text (names are only ever
    compared, sorted, hashed and copied by the code under test)"""
    v = int(v)
    if v == E.EMPTY_ATOM:
        return ""
    base = ("p%07d" % v) if v >= 0 else ("m%07d" % (10 ** 7 + v))
    # distinct atoms have distinct fixed-width prefixes, so the order is decided before the suffix:
    # replays therefore also exercise non-ASCII names and names of unequal length
    return base + ("", "\u00e9", "\u00df\u00df")[v % 3]


SPECIAL_FLOATS = {1: float("nan"), 2: float("inf"), 3: float("-inf"), 4: -0.0}


def _bits(x):
    import struct
    return struct.pack("<d", x)


class ConcreteViolation(Exception):
    def __init__(self, label, detail=None):
        super().__init__(label)
        self.label = label
        self.detail = detail


class Ctx:
    mode = None

    def __init__(self):
        self.observations = []
        self.failed = []

    # --- comparisons usable in both modes -------------------------------------
    def observe(self, label, value):
        self.observations.append((label, value))

    def inconclusive(self, reason):
        """the harness cannot observe what it needs on this code: no verdict (exit 2), never a finding"""
        raise E.Inconclusive(reason)


class SymCtx(Ctx):
    mode = "sym"
    symbolic = True

    def __init__(self, eng, L):
        super().__init__()
        self.eng = eng
        self.L = L
        self.np = L.np
        symlibs.h5_reset()
        symlibs.MemFiles.files.clear()
        symnp.CONCRETE_MATH = False
        symnp.F32_EXACT = False
        L.np_random._global.reset()
        # every execution gets file names of its own: state that the code under test keeps per path name (a cache keyed by
        # file name, say) cannot leak from one explored path into the next
        SymCtx._run += 1
        self._tmp_prefix = "/mem/r%d/" % SymCtx._run
        L.reset_state()

    _run = 0

    def global_rng(self):
        """the model of the process-global numpy generator (np.random.*), with a log of (method, params)"""
        return _NullCtx(self.L.np_random._global)

    def f32_visible(self, on=True):
        """make casts to float32 observable (value -> F32(value)) for bit-exactness properties"""
        symnp.F32_EXACT = on

    def mod(self, name):
        return self.L.load(name)

    def real(self, name, positive=False, nonneg=False):
        return self.eng.sym_real(name, positive=positive, nonneg=nonneg)

    def real_bits(self, name):
        """a float64 whose bit pattern matters (persistence properties)"""
        return self.eng.sym_real(name)

    def float_bits(self, name):
        """a float64 of any class: a finite value (symbolic real) or - solver-enumerated - NaN, +inf, -inf, -0.0
        (concrete floats: they only flow through persistence code; arithmetic on them is outside the real-number model)"""
        cls = int(self.eng.sym_int(name + "#cls", 0, 4))
        return self.eng.sym_real(name) if cls == 0 else SPECIAL_FLOATS[cls]

    def same(self, a, b):
        """exact equality (bit pattern for floats)"""
        if isinstance(a, float) and isinstance(b, float):
            return _bits(a) == _bits(b)
        if isinstance(a, float) and (a != a or a in (math.inf, -math.inf) or _bits(a) == _bits(-0.0)):
            return False
        if isinstance(b, float) and (b != b or b in (math.inf, -math.inf) or _bits(b) == _bits(-0.0)):
            return False
        return a == b

    def int(self, name, lo=None, hi=None):
        return self.eng.sym_int(name, lo, hi)

    def bool(self, name):
        return self.eng.sym_bool(name)

    def str(self, name):
        return self.eng.sym_str(name)

    def rng(self, stream="R"):
        return symlibs.Generator(stream)

    def replay_rng(self, g, prefix):
        return g.replayer(prefix, backend=_ShimBackend())

    def assume(self, cond, text=None):
        self.eng.assume(cond, text)

    def prove(self, cond, label, key=None, detail=None, hard=False):
        self.eng.prove(cond, label, key=key, detail=detail, hard=hard)

    def fail(self, label, key=None, detail=None):
        self.eng.fail(label, key=key, detail=detail)

    def report(self, label, key=None, detail=None):
        self.eng.report(label, key=key, detail=detail)

    def eq(self, a, b):
        if isinstance(a, float) and isinstance(b, float) and a == a and b == b and abs(a) != float("inf") and abs(b) != float("inf"):
            # two concrete floats (no symbolic part reached them): equal to floating-point accuracy, as on the replay
            return abs(a - b) <= 1e-9 + 1e-7 * max(abs(a), abs(b))
        return a == b

    def tmp(self, name):
        return self._tmp_prefix + name

    def read_text(self, path):
        return symlibs.MemFiles.files[path]

    def is_true(self, c):
        """decide a condition by forking (harness-level case split)"""
        return bool(c)

    def And(self, *cs):
        r = True
        for c in cs:
            r = symnp._and(r, c)
        return r

    def Or(self, *cs):
        r = False
        for c in cs:
            r = symnp._or(r, c)
        return r

    def Not(self, c):
        return symnp._not(c)

    def ite(self, c, a, b):
        return E.ite(c, a, b)


def _val(v):
    if isinstance(v, Fraction):
        return float(v)
    return v


class ConcreteCtx(Ctx):
    symbolic = False

    def __init__(self, values, eng=None):
        super().__init__()
        self.values = {k: _val(v) for k, v in (values or {}).items()}
        self.eng = eng
        self._tmpdir = None

    def real(self, name, positive=False, nonneg=False):
        v = self.values.get(name)
        if v is None:
            v = 1.0 if positive else 0.0
        return float(v)

    def real_bits(self, name):
        """replay value for a bit-exactness property: a double that does not survive a float32 round trip"""
        import struct
        x = self.real(name)
        if struct.unpack("f", struct.pack("f", x))[0] == x:
            x = math.nextafter(x, math.inf)
        return x

    def float_bits(self, name):
        cls = int(self.values.get(name + "#cls", 0) or 0)
        return self.real_bits(name) if cls == 0 else SPECIAL_FLOATS[cls]

    def same(self, a, b):
        try:
            if isinstance(a, float) and isinstance(b, float) and math.isnan(a) and math.isnan(b):
                return True
            if isinstance(a, float) and isinstance(b, float) and a == 0.0 and b == 0.0:
                return _bits(a) == _bits(b)
            return bool(a == b)
        except Exception:
            return False

    def int(self, name, lo=None, hi=None):
        v = self.values.get(name)
        if v is None:
            v = lo if lo is not None else 0
        return int(v)

    def bool(self, name):
        return bool(self.values.get(name, False))

    def str(self, name):
        v = self.values.get(name, 0)
        if isinstance(v, str):
            return v
        return atom_to_str(v)

    def assume(self, cond, text=None):
        if not bool(cond):
            raise E.PathAbort()

    def prove(self, cond, label, key=None, detail=None, hard=False):
        ok = bool(cond)
        if not ok:
            d = detail() if callable(detail) else detail
            self.failed.append((label, key or label, d))
            raise ConcreteViolation(label, d)

    def fail(self, label, key=None, detail=None):
        d = detail() if callable(detail) else detail
        self.failed.append((label, key or label, d))
        raise ConcreteViolation(label, d)

    def report(self, label, key=None, detail=None):
        self.failed.append((label, key or label, detail))

    def eq(self, a, b, rel=1e-7, abs_=1e-9):
        try:
            fa, fb = float(a), float(b)
        except (TypeError, ValueError):
            return a == b
        if math.isnan(fa) or math.isnan(fb):
            return math.isnan(fa) and math.isnan(fb)
        if math.isinf(fa) or math.isinf(fb):
            return fa == fb
        return abs(fa - fb) <= abs_ + rel * max(abs(fa), abs(fb))

    def is_true(self, c):
        return bool(c)

    def f32_visible(self, on=True):
        symnp.F32_EXACT = on if self.mode == "shim" else False

    def And(self, *cs):
        return all(bool(c) for c in cs)

    def Or(self, *cs):
        return any(bool(c) for c in cs)

    def Not(self, c):
        return not bool(c)

    def ite(self, c, a, b):
        return a if bool(c) else b


class _NullCtx:
    def __init__(self, g):
        self.g = g

    def __enter__(self):
        return self.g

    def __exit__(self, *a):
        return False


class _PatchedGlobalRng:
    """replay: np.random.normal / gamma / ... answer from the counterexample and log their parameters"""
    NAMES = ("normal", "gamma", "random", "choice", "permutation", "standard_normal")

    def __init__(self, np, values):
        self.np = np
        self.g = symlibs.Generator("G", backend=np, source=values)
        self.saved = {}

    def __enter__(self):
        for n in self.NAMES:
            self.saved[n] = getattr(self.np.random, n)
            setattr(self.np.random, n, getattr(self.g, n))
        return self.g

    def __exit__(self, *a):
        for n, o in self.saved.items():
            setattr(self.np.random, n, o)
        return False


class RealCtx(ConcreteCtx):
    mode = "real"

    def global_rng(self):
        return _PatchedGlobalRng(self.np, self.values)

    def __init__(self, values):
        super().__init__(values)
        import numpy
        self.np = numpy

    def mod(self, name):
        return importlib.import_module(name)

    def rng(self, stream="R"):
        return symlibs.Generator(stream, backend=self.np, source=self.values)

    def replay_rng(self, g, prefix):
        return g.replayer(prefix, backend=self.np)

    def tmp(self, name):
        if self._tmpdir is None:
            self._tmpdir = tempfile.mkdtemp(prefix="bverif_replay_")
        return os.path.join(self._tmpdir, name)

    def read_text(self, path):
        return open(path).read()

    def cleanup(self):
        if self._tmpdir:
            import shutil
            shutil.rmtree(self._tmpdir, ignore_errors=True)
            self._tmpdir = None


class ShimCtx(ConcreteCtx):
    mode = "shim"

    def __init__(self, values, L):
        eng = E.Engine()
        super().__init__(values, eng)
        self.L = L
        self.np = L.np
        symlibs.h5_reset()
        symnp.CONCRETE_MATH = True
        E.CUR = eng
        L.np_random._global.reset()
        L.np_random._global.source = self.values
        L.np_random._global.backend = _ShimBackend()
        symlibs.MemFiles.files.clear()
        SymCtx._run += 1
        self._tmp_prefix = "/mem/r%d/" % SymCtx._run
        L.reset_state()

    def mod(self, name):
        return self.L.load(name)

    def rng(self, stream="R"):
        # concrete picks, but arrays of the model
        return symlibs.Generator(stream, backend=_ShimBackend(), source=self.values)

    def tmp(self, name):
        return self._tmp_prefix + name

    def read_text(self, path):
        return symlibs.MemFiles.files[path]

    def global_rng(self):
        return _NullCtx(self.L.np_random._global)

    def replay_rng(self, g, prefix):
        return g.replayer(prefix, backend=_ShimBackend())

    def cleanup(self):
        symnp.CONCRETE_MATH = False
        E.CUR = None
        self.L.np_random._global.source = None
        self.L.np_random._global.backend = None


class _ShimBackend:
    """numpy-like constructor surface over the model arrays for the scripted generator"""

    def array(self, vals, dtype=None):
        return symnp.array(list(vals), dtype=dtype if dtype is not object else None) if len(vals) or dtype is not object \
            else symnp.ndarray.fresh([], (0,), "O")

    def arange(self, n):
        return symnp.arange(n)

    def empty(self, n, dtype=None):
        return symnp.ndarray.fresh([None] * n, (n,), "O")


def to_py(x):
    """normalise numpy / model values to plain python for comparison of observations"""
    try:
        import numpy
        if isinstance(x, numpy.ndarray):
            return [to_py(v) for v in x.tolist()] if x.ndim else to_py(x.item())
        if isinstance(x, numpy.generic):
            return x.item()
    except ImportError:
        pass
    if isinstance(x, symnp.ndarray):
        return to_py(x.tolist())
    if isinstance(x, (list, tuple)):
        return [to_py(v) for v in x]
    if isinstance(x, dict):
        return {str(k): to_py(v) for k, v in x.items()}
    if isinstance(x, (symnp.I64, symnp.F64)):
        return x.item()
    if isinstance(x, bytes):
        return x.decode()
    return x


def same(a, b, rel=1e-6):
    a, b = to_py(a), to_py(b)
    if isinstance(a, list) and isinstance(b, list):
        return len(a) == len(b) and all(same(x, y, rel) for x, y in zip(a, b))
    if isinstance(a, dict) and isinstance(b, dict):
        return a.keys() == b.keys() and all(same(a[k], b[k], rel) for k in a)
    if isinstance(a, bool) or isinstance(b, bool):
        return bool(a) == bool(b)
    if isinstance(a, (int, float)) and isinstance(b, (int, float)):
        if isinstance(a, float) and math.isnan(a):
            return isinstance(b, float) and math.isnan(b)
        if a == b:
            return True
        return abs(a - b) <= 1e-9 + rel * max(abs(a), abs(b))
    return a == b
