"""Filesystem / process model for nextflow/scripts/batchie.py (DESIGN.md section 3.3 'symfs').

Two interchangeable back ends expose the handful of os / glob / shutil / open operations the script uses:
MemFS (an in-memory tree, used under the symbolic engine) and RealFS (a real temporary directory, used when a
counterexample is replayed).  Every single mutation (each mkdir of each path component, each entry removed by
rmtree, each published file) is a numbered *tick*; a crash strikes before a chosen tick."""
import fnmatch
import glob as _glob
import json as _json
import os as _os
import posixpath
import shutil as _shutil
import types


class Crash(Exception):
    """the process is killed here (not an error of the script)"""


class FSBase:
    def __init__(self, crash_hook=None):
        self.ticks = 0
        self.crash_hook = crash_hook  # callable(tick_index, what) -> bool: crash now?
        self.armed = True
        self.removed_dirs = []
        self.on_crash = None  # called at the instant of an interruption, before any handler of the interrupted code can run

    def tick(self, what):
        if self.armed and self.crash_hook is not None and self.crash_hook(self.ticks, what):
            self.armed = False
            if self.on_crash is not None:
                self.on_crash()
            raise Crash(what)
        self.ticks += 1

    # --- composite operations, decomposed into single mutations
    def makedirs(self, p, exist_ok=False):
        parts = [x for x in p.split("/") if x]
        cur = ""
        created = False
        for x in parts:
            cur += "/" + x
            if not self.exists(cur):
                self.tick("mkdir " + cur)
                self._mkdir(cur)
                created = True
            elif not self.isdir(cur):
                raise FileExistsError(cur)
        if not created and not exist_ok:
            raise FileExistsError(p)

    def rmtree(self, p, ignore_errors=False):
        if not self.exists(p):
            if ignore_errors:
                return
            raise FileNotFoundError(p)
        victims = sorted(self._descendants(p), key=lambda q: (-q.count("/"), q))
        for q in victims:
            self.tick("rm " + q)
            if self.isdir(q):
                self.removed_dirs.append(q)
            self._remove(q)

    def write(self, p, content):
        self.tick("publish " + p)
        self._write(p, content)


class MemFS(FSBase):
    def __init__(self, crash_hook=None):
        super().__init__(crash_hook)
        self.nodes = {"/": "dir"}

    def exists(self, p):
        return p in self.nodes

    def isdir(self, p):
        return self.nodes.get(p) == "dir"

    def _mkdir(self, p):
        self.nodes[p] = "dir"

    def _descendants(self, p):
        return [q for q in self.nodes if q == p or q.startswith(p + "/")]

    def _remove(self, q):
        del self.nodes[q]

    def _write(self, p, content):
        self.nodes[p] = ("file", content)

    def read(self, p):
        n = self.nodes.get(p)
        if not isinstance(n, tuple):
            raise FileNotFoundError(p)
        return n[1]

    def glob(self, pat, recursive=False):
        parts = pat.split("/")
        out = []
        deep = recursive and "**" in parts
        n = len(parts)
        for q in self.nodes:
            if not deep and q.count("/") + 1 != n:
                continue
            if _glob_match(q.split("/"), parts, recursive):
                out.append(q)
        return sorted(out)

    def tree(self):
        return {p: (v if v == "dir" else v[1]) for p, v in self.nodes.items()}


def _glob_match(qs, parts, recursive):
    """glob.glob semantics on path components: '**' (with recursive=True) matches zero or more directories"""
    if not parts:
        return not qs
    if parts[0] == "**" and recursive:
        return any(_glob_match(qs[i:], parts[1:], recursive) for i in range(len(qs) + 1)) if len(parts) > 1 else True
    if not qs:
        return False
    if not fnmatch.fnmatchcase(qs[0], parts[0]) or (qs[0].startswith(".") and not parts[0].startswith(".")):
        return False
    return _glob_match(qs[1:], parts[1:], recursive)


class RealFS(FSBase):
    """same interface over a real directory; logical paths are rooted at self.root"""

    def __init__(self, root, crash_hook=None):
        super().__init__(crash_hook)
        self.root = root

    def _r(self, p):
        return self.root + p

    def exists(self, p):
        return _os.path.exists(self._r(p))

    def isdir(self, p):
        return _os.path.isdir(self._r(p))

    def _mkdir(self, p):
        _os.mkdir(self._r(p))

    def _descendants(self, p):
        out = [p]
        if self.isdir(p):
            for d, dirs, files in _os.walk(self._r(p)):
                rel = d[len(self.root):]
                for x in dirs + files:
                    out.append(rel + "/" + x)
        return out

    def _remove(self, q):
        if self.isdir(q):
            _os.rmdir(self._r(q))
        else:
            _os.remove(self._r(q))

    def _write(self, p, content):
        with open(self._r(p), "w") as f:
            f.write(content)

    def read(self, p):
        with open(self._r(p)) as f:
            return f.read()

    def glob(self, pat, recursive=False):
        return sorted(x[len(self.root):].rstrip("/") for x in _glob.glob(self._r(pat), recursive=recursive))

    def tree(self):
        out = {"/": "dir"}
        for d, dirs, files in _os.walk(self.root):
            rel = d[len(self.root):]
            for x in dirs:
                out[rel + "/" + x] = "dir"
            for x in files:
                out[rel + "/" + x] = self.read(rel + "/" + x)
        return out


class _File:
    def __init__(self, content):
        self.content = content

    def __enter__(self):
        return self

    def __exit__(self, *a):
        return False

    def read(self):
        return self.content


def shims(fs, check_call):
    """module objects to substitute for os / glob / shutil / subprocess, and a replacement for open()"""
    osm = types.ModuleType("os")
    osm.path = types.ModuleType("os.path")
    for k in ("join", "basename", "dirname", "splitext"):
        setattr(osm.path, k, getattr(posixpath, k))
    osm.path.abspath = lambda p: p
    osm.path.realpath = lambda p: p
    osm.path.isdir = fs.isdir
    osm.path.exists = fs.exists
    osm.makedirs = fs.makedirs
    globm = types.ModuleType("glob")
    globm.glob = fs.glob
    shm = types.ModuleType("shutil")
    shm.rmtree = fs.rmtree
    spm = types.ModuleType("subprocess")
    spm.check_call = check_call
    spm.CalledProcessError = Exception

    def fake_open(p, mode="r", *a, **k):
        if "r" not in mode:
            raise PermissionError("the orchestration script only reads files")
        return _File(fs.read(p))
    return {"os": osm, "glob": globm, "shutil": shm, "subprocess": spm}, fake_open
