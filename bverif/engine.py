"""Path-exploring symbolic executor over z3 (DESIGN.md section 3.1).

The code under test is ordinary Python (batchie's unmodified source, loaded by
bverif.loader with its libraries replaced by models).  Inputs are SymInt /
SymReal / SymBool / SymStr objects that build z3 terms; every Python-level
truth test of a symbolic boolean asks the solver which sides are feasible and
forks.  Exploration is depth first by re-execution with a decision prefix.
"""
import sys
import time
import hashlib
from fractions import Fraction

import z3

# exact rationals in the path condition can have thousands of digits (products of many symbolic-free factors);
# python >= 3.11 refuses to render those by default
if hasattr(sys, "set_int_max_str_digits"):
    sys.set_int_max_str_digits(0)


# --------------------------------------------------------------------------
# control-flow exceptions (BaseException: batchie's `except Exception` must not
# swallow them; bare `except:` clauses are handled by the latch, see Engine)
# --------------------------------------------------------------------------
class PathAbort(BaseException):
    """Current path is infeasible / deliberately cut."""


class Inconclusive(BaseException):
    """Solver said unknown, model gap, budget exhausted: never a pass."""

    def __init__(self, reason):
        super().__init__(reason)
        self.reason = reason


class ModelGap(Inconclusive):
    """The code under test used something the library models do not cover."""


class Violation(BaseException):
    def __init__(self, label, model=None, detail=None, key=None):
        super().__init__(label)
        self.label = label
        self.model = model or {}
        self.detail = detail
        self.key = key or label


CUR = None  # the engine of the running path


def cur():
    if CUR is None:
        raise RuntimeError("no symbolic engine active")
    return CUR


# --------------------------------------------------------------------------
# uninterpreted functions shared by the models
# --------------------------------------------------------------------------
_R = z3.RealSort()
LOG = z3.Function("LOG", _R, _R)
EXP = z3.Function("EXP", _R, _R)
SQRT = z3.Function("SQRT", _R, _R)
EXPIT = z3.Function("EXPIT", _R, _R)
LOGIT = z3.Function("LOGIT", _R, _R)
F32 = z3.Function("F32", _R, _R)  # value after a round trip through float32
UF_NAMES = ("LOG", "EXP", "SQRT", "EXPIT", "LOGIT", "F32")


def _val_to_py(v):
    if z3.is_int_value(v):
        return v.as_long()
    if z3.is_rational_value(v):
        return Fraction(v.numerator_as_long(), v.denominator_as_long())
    if z3.is_algebraic_value(v):
        a = v.approx(20)
        return Fraction(a.numerator_as_long(), a.denominator_as_long())
    if z3.is_true(v):
        return True
    if z3.is_false(v):
        return False
    return str(v)


class Engine:
    def __init__(self, timeout_ms=20000, prove_timeout_ms=60000, max_paths=2000000,
                 deadline=None):
        self.timeout_ms = timeout_ms
        self.prove_timeout_ms = prove_timeout_ms
        self.max_paths = max_paths
        self.deadline = deadline
        self.numeric_first = 0
        self.fast_real = False
        self.xcheck_limit = 0     # number of discharged obligations to dump as SMT-LIB2 for a second solver (thorough tier)
        self.xcheck = []
        self._varcache = {}
        self.stats = dict(paths=0, aborted=0, forks=0, queries=0, sat=0, unsat=0,
                          unknown=0, solver_s=0.0, obligations=0, discharged=0,
                          nontrivial_paths=0, violations=0)
        self.labels = {}
        self.label_time = {}
        self.samples = []
        self.violations = []
        self.reach = 0  # reachability witnesses (prove(False) twins that came back sat)
        self.reset_path([])

    # ---------------------------------------------------------------- paths
    def reset_path(self, prefix):
        self.prefix = list(prefix)
        self.depth = 0
        self.decisions = []
        self.solver = z3.Solver()
        self.solver.set("timeout", self.timeout_ms)
        self.pending = []
        self.nfresh = 0
        self.gen_count = 0
        self.symbols = {}
        self.latched = None
        self.path_obligations = 0
        self.notes = []
        self.draws = []
        self.assumptions = []

    def _latch(self, exc):
        self.latched = exc
        raise exc

    def _check_latch(self):
        if self.latched is not None:
            raise self.latched

    # --------------------------------------------------------------- symbols
    def _register(self, name, const):
        if name in self.symbols:
            self._latch(Inconclusive("harness error: symbol name used twice: %s" % name))
        self.symbols[name] = const
        return const

    def sym_int(self, name, lo=None, hi=None):
        c = self._register(name, z3.Int(name))
        if lo is not None:
            self.solver.add(c >= lo)
        if hi is not None:
            self.solver.add(c <= hi)
        return SymInt(c)

    def sym_real(self, name, positive=False, nonneg=False):
        c = self._register(name, z3.Real(name))
        if positive:
            self.solver.add(c > 0)
        if nonneg:
            self.solver.add(c >= 0)
        return SymReal(c)

    def sym_bool(self, name):
        return SymBool(self._register(name, z3.Bool(name)))

    def sym_str(self, name):
        """a string known only up to order-isomorphism: an atom of an ordered sort"""
        c = self._register(name, z3.Int(name))
        self.solver.add(c >= EMPTY_ATOM)  # the empty string is the least string; it is the one atom with a known text
        return SymStr(c)

    def fresh(self, name, sort):
        self.nfresh += 1
        return self._register("%s!%d" % (name, self.nfresh), z3.Const("%s!%d" % (name, self.nfresh), sort))

    def fresh_real(self, name, positive=False):
        c = self.fresh(name, _R)
        if positive:
            self.solver.add(c > 0)
        return SymReal(c)

    def fresh_int(self, name):
        return SymInt(self.fresh(name, z3.IntSort()))

    # ---------------------------------------------------------------- solver
    def check(self, *extra):
        self._check_latch()
        if self.deadline is not None and time.time() > self.deadline:
            self._latch(Inconclusive("time budget exhausted"))
        t = time.time()
        r = self.solver.check(*extra)
        self.stats["solver_s"] += time.time() - t
        self.stats["queries"] += 1
        self.stats[str(r)] += 1
        return r

    def model_dict(self, model=None):
        m = model if model is not None else self.solver.model()
        out = {}
        for name, c in self.symbols.items():
            try:
                out[name] = _val_to_py(m.eval(c, model_completion=True))
            except z3.Z3Exception:
                pass
        return out

    def assume(self, cond, text=None):
        self._check_latch()
        c = tobool(cond)
        if text:
            self.assumptions.append(text)
        if isinstance(c, bool):
            if not c:
                self._latch(PathAbort())
            return
        self.solver.add(c)
        r = self.check()
        if r == z3.unsat:
            self._latch(PathAbort())
        if r == z3.unknown:
            self._latch(Inconclusive("solver unknown in assume"))

    def branch(self, cond):
        """Decide a symbolic boolean; forks when both sides are feasible."""
        self._check_latch()
        cond = z3.simplify(cond)
        if z3.is_true(cond):
            return True
        if z3.is_false(cond):
            return False
        if self.depth < len(self.prefix):
            kind, _, d = self.prefix[self.depth]
            if kind != "b":
                self._latch(Inconclusive("non-deterministic replay (branch vs value)"))
            self.depth += 1
            self.decisions.append(("b", None, d))
            self.solver.add(cond if d else z3.Not(cond))
            return d
        rt = self.check(cond)
        if rt == z3.unknown:
            self._latch(Inconclusive("solver unknown at branch: %s" % str(cond)[:200]))
        if rt == z3.unsat:
            d = False
        else:
            rf = self.check(z3.Not(cond))
            if rf == z3.unknown:
                self._latch(Inconclusive("solver unknown at branch: %s" % str(cond)[:200]))
            d = True
            if rf == z3.sat:
                self.stats["forks"] += 1
                self.pending.append(self.decisions + [("b", None, False)])
        self.depth += 1
        self.prefix.append(("b", None, d))
        self.decisions.append(("b", None, d))
        self.solver.add(cond if d else z3.Not(cond))
        return d

    def concretize(self, expr):
        """Fork over all feasible concrete values of an Int expr."""
        self._check_latch()
        expr = z3.simplify(expr)
        if z3.is_int_value(expr):
            return expr.as_long()
        tried = 0
        while True:
            if self.depth < len(self.prefix):
                kind, v, d = self.prefix[self.depth]
                if kind != "v":
                    self._latch(Inconclusive("non-deterministic replay (value vs branch)"))
                self.depth += 1
                self.decisions.append((kind, v, d))
                self.solver.add(expr == v if d else expr != v)
                if d:
                    return v
                continue
            r = self.check()
            if r == z3.unsat:
                self._latch(PathAbort())
            if r == z3.unknown:
                self._latch(Inconclusive("solver unknown in concretize"))
            v = self.solver.model().eval(expr, model_completion=True).as_long()
            r2 = self.check(expr != v)
            if r2 == z3.unknown:
                self._latch(Inconclusive("solver unknown in concretize"))
            if r2 == z3.sat:
                tried += 1
                if tried > 64:
                    self._latch(Inconclusive("unbounded concretisation of %s" % str(expr)[:80]))
                self.stats["forks"] += 1
                self.pending.append(self.decisions + [("v", v, False)])
            self.depth += 1
            self.prefix.append(("v", v, True))
            self.decisions.append(("v", v, True))
            self.solver.add(expr == v)
            return v

    # ----------------------------------------------------------- obligations
    def prove(self, cond, label="", key=None, detail=None, hard=False):
        """Proof obligation: cond holds for every value on this path."""
        self._check_latch()
        self.stats["obligations"] += 1
        self.path_obligations += 1
        st = self.labels.setdefault(label, [0, 0])
        st[0] += 1
        _t0 = time.time()
        try:
            self._prove(cond, label, key, detail, st, hard)
        finally:
            self.label_time[label] = self.label_time.get(label, 0.0) + time.time() - _t0

    def _prove(self, cond, label, key, detail, st, hard=False):
        c = tobool(cond)
        if isinstance(c, bool):
            if not c:
                self._violation(label, self.solver.model() if self.check() == z3.sat else None, key, detail)
            self.stats["discharged"] += 1
            st[1] += 1
            return
        c = z3.simplify(c)
        if z3.is_true(c):
            self.stats["discharged"] += 1
            st[1] += 1
            return
        if self.fast_real and self._prove_sliced(c):
            self.stats["discharged"] += 1
            self.stats["sliced"] = self.stats.get("sliced", 0) + 1
            st[1] += 1
            return
        if self.numeric_first:
            w = self._numeric_witness(c, tries=self.numeric_first)
            if w is not None:
                self.stats["witnesses"] = self.stats.get("witnesses", 0) + 1
                self._latch(Violation(label, w, detail() if callable(detail) else detail, key))
        if hard:  # nonlinear real arithmetic known to defeat the default solver: purify + nlsat directly
            r, model = self._decide_nlsat(z3.Not(c))
            if r == z3.unsat:
                self.stats["discharged"] += 1
                st[1] += 1
                return
            if r == z3.sat:
                self._violation(label, model, key, detail)
        r = self.check(z3.Not(c))
        if r == z3.unknown:
            w = self._numeric_witness(c, tries=60)
            if w is not None:
                self.stats["witnesses"] = self.stats.get("witnesses", 0) + 1
                self._latch(Violation(label, w, detail() if callable(detail) else detail, key))
            r, model = self._decide_nlsat(z3.Not(c))
        else:
            model = self.solver.model() if r == z3.sat else None
        if r == z3.unsat:
            self.stats["discharged"] += 1
            st[1] += 1
            if len(self.xcheck) < self.xcheck_limit and st[1] <= 2:
                self._dump(list(self.solver.assertions()) + [z3.Not(c)], label)
            return
        if r == z3.sat:
            self._violation(label, model, key, detail)
        w = self._numeric_witness(c)
        if w is not None:
            self.stats["witnesses"] = self.stats.get("witnesses", 0) + 1
            self._latch(Violation(label, w, detail() if callable(detail) else detail, key))
        self._latch(Inconclusive("solver unknown proving '%s'" % label))

    def _numeric_witness(self, goal, tries=300, tol=1e-6):
        """solver said unknown: look for concrete values that satisfy the path condition and falsify the
        goal, evaluating the uninterpreted functions with their true meaning.  A witness is only a
        *candidate* (it must still reproduce on the real code); no witness never means 'holds'."""
        import math
        import os
        import random
        from . import numeval
        rnd = random.Random(int(os.environ.get("VERIF_SEED", "0")) + 17)
        cons = list(self.solver.assertions())
        fv = numeval.free_vars(cons + [goal])
        hints = {}
        for c in cons:  # simple bounds x > 0, x >= k, x <= k on constants
            try:
                if z3.is_app(c) and c.num_args() == 2 and z3.is_const(c.arg(0)) and c.arg(0).decl().kind() == z3.Z3_OP_UNINTERPRETED:
                    nm = c.arg(0).decl().name()
                    k = c.decl().kind()
                    if z3.is_int_value(c.arg(1)) or z3.is_rational_value(c.arg(1)):
                        v = float(c.arg(1).as_fraction())
                        h = hints.setdefault(nm, [None, None])
                        if k in (z3.Z3_OP_GT, z3.Z3_OP_GE):
                            h[0] = v if h[0] is None else max(h[0], v)
                        if k in (z3.Z3_OP_LT, z3.Z3_OP_LE):
                            h[1] = v if h[1] is None else min(h[1], v)
            except Exception:
                pass
        base = {}
        if any(srt != z3.RealSort() for srt in fv.values()):
            # integers / booleans (structure) come from a model of the path condition; reals are sampled
            self.solver.push()
            try:
                self.solver.set("timeout", 2000)
                if self.solver.check() == z3.sat:
                    m = self.solver.model()
                    for name, srt in fv.items():
                        if srt != z3.RealSort():
                            v = m.eval(z3.Const(name, srt), model_completion=True)
                            base[name] = v.as_long() if srt == z3.IntSort() else z3.is_true(v)
            except z3.Z3Exception:
                pass
            finally:
                self.solver.set("timeout", self.timeout_ms)
                self.solver.pop()
        for _ in range(tries):
            env = dict(base)
            for name, sort in fv.items():
                if name in base:
                    continue
                lo, hi = hints.get(name, [None, None])
                if sort == z3.RealSort():
                    if lo is not None and lo >= 0 and hi is None:
                        env[name] = lo + 10 ** rnd.uniform(-1.5, 1.0)
                    elif lo is not None and hi is not None:
                        env[name] = rnd.uniform(lo, hi)
                    else:
                        env[name] = rnd.uniform(-2.0, 2.0)
                elif sort == z3.IntSort():
                    env[name] = rnd.randint(int(lo) if lo is not None else -3, int(hi) if hi is not None else 6)
                else:
                    env[name] = rnd.random() < 0.5
            try:
                cache = {}
                if not all(numeval.evaluate(c, env, cache) for c in cons):
                    continue
                if z3.is_eq(goal) and goal.arg(0).sort() == z3.RealSort():
                    a, b = [numeval.evaluate(x, env, cache) for x in goal.children()]
                    if math.isnan(a) or math.isnan(b) or math.isinf(a) or math.isinf(b):
                        continue
                    if abs(a - b) > tol * (1 + abs(a) + abs(b)):
                        return {k: v for k, v in env.items() if k in self.symbols}
                    continue
                if not numeval.evaluate(goal, env, cache):
                    return {k: v for k, v in env.items() if k in self.symbols}
            except (ValueError, OverflowError, ZeroDivisionError, KeyError, NotImplementedError, TypeError):
                continue
        return None

    def _violation(self, label, model, key, detail):
        md = self.model_dict(model) if model is not None else {}
        self._latch(Violation(label, md, detail() if callable(detail) else detail, key))

    def report(self, label, key=None, detail=None):
        """record a violation on this (feasible) path and keep going (several findings on one path)"""
        self._check_latch()
        self.stats["obligations"] += 1
        st = self.labels.setdefault(label, [0, 0])
        st[0] += 1
        r = self.check()
        v = Violation(label, self.model_dict() if r == z3.sat else {}, detail, key)
        v.decisions = list(self.decisions)
        v.notes = list(self.notes)
        self.stats["violations"] += 1
        self.violations.append(v)

    def fail(self, label, key=None, detail=None):
        """Unconditional violation on this (feasible) path."""
        self._check_latch()
        self.stats["obligations"] += 1
        st = self.labels.setdefault(label, [0, 0])
        st[0] += 1
        r = self.check()
        self._violation(label, self.solver.model() if r == z3.sat else None, key, detail)

    def reachable(self):
        """Reachability twin: the path condition must be satisfiable here."""
        r = self.check()
        if r == z3.sat:
            self.reach += 1
            return True
        if r == z3.unknown:
            # a numeric assignment satisfying every path constraint is a reachability witness too
            if self._numeric_witness(z3.BoolVal(False), tries=200) is not None:
                self.reach += 1
                return True
            r2, _ = self._decide_nlsat(z3.BoolVal(True))
            if r2 == z3.sat:
                self.reach += 1
                return True
            self._latch(Inconclusive("solver unknown in reachability twin"))
        return False

    def _vars_of(self, e):
        k = e.get_id()
        r = self._varcache.get(k)
        if r is not None:
            return r
        out = set()
        seen = set()
        stack = [e]
        while stack:
            x = stack.pop()
            i = x.get_id()
            if i in seen:
                continue
            seen.add(i)
            if z3.is_const(x) and x.decl().kind() == z3.Z3_OP_UNINTERPRETED:
                out.add(x.decl().name())
            else:
                stack.extend(x.children())
        self._varcache[k] = (out, e)  # keep e alive so that ids are not reused
        return self._varcache[k]

    def _prove_sliced(self, goal):
        """sound shortcut for real-arithmetic obligations: prove the goal from no hypotheses, then from the
        hypotheses in its cone of influence (a subset of the path condition: unsat there is unsat everywhere),
        each time after purification with nlsat.  Anything but unsat falls through to the full query."""
        neg = z3.Not(goal)
        for rounds, tmo in ((0, 3000), (1, 6000), (2, 12000)):
            hyps = []
            if rounds:
                syms = set(self._vars_of(goal)[0])
                chosen = set()
                A = list(self.solver.assertions())
                for _ in range(rounds):
                    new = set()
                    for idx, a in enumerate(A):
                        if idx in chosen:
                            continue
                        va = self._vars_of(a)[0]
                        if va & syms and len(va) <= 12:
                            chosen.add(idx)
                            new |= va
                    syms |= new
                hyps = [A[i] for i in sorted(chosen)]
                if len(hyps) > 400:
                    continue
            t = time.time()
            try:
                fs = purify(hyps + [neg])
                sv = z3.Then("simplify", "solve-eqs", "qfnra-nlsat").solver()
                sv.set("timeout", tmo)
                sv.add(*fs)
                r = sv.check()
            except z3.Z3Exception:
                r = z3.unknown
            self.stats["solver_s"] += time.time() - t
            self.stats["queries"] += 1
            self.stats[str(r)] += 1
            if r == z3.unsat:
                if len(self.xcheck) < self.xcheck_limit and len(self.xcheck) % 3 == 0:
                    self._dump(fs, "sliced")
                return True
        return False

    def _dump(self, formulas, label):
        try:
            sv = z3.Solver()
            sv.add(*formulas)
            txt = sv.to_smt2()
            if len(txt) < 400000:
                self.xcheck.append((label, "(set-logic ALL)\n" + txt))
        except z3.Z3Exception:
            pass

    def _decide_nlsat(self, goal):
        """purify divisions / UF applications, then decide with qfnra-nlsat"""
        t = time.time()
        try:
            fs = purify(list(self.solver.assertions()) + [goal])
            s = z3.Then("simplify", "solve-eqs", "qfnra-nlsat").solver()
            s.set("timeout", self.prove_timeout_ms)
            s.add(*fs)
            r = s.check()
            model = s.model() if r == z3.sat else None
        except z3.Z3Exception:
            r, model = z3.unknown, None
        self.stats["solver_s"] += time.time() - t
        self.stats["queries"] += 1
        self.stats[str(r)] += 1
        return r, model

    def note(self, what):
        self.notes.append(what)

    # ----------------------------------------------------------- exploration
    def explore(self, fn, roots=None, collect_pending=None, on_path=None):
        """Depth-first exploration. roots: list of decision prefixes to start from.
        collect_pending: if an int, stop expanding after that many paths and return the
        unexplored prefixes (used to split work over processes)."""
        global CUR
        work = [list(p) for p in (roots if roots is not None else [[]])]
        leftover = []
        while work:
            if collect_pending is not None and self.stats["paths"] + self.stats["aborted"] >= collect_pending:
                leftover = work
                break
            prefix = work.pop()
            self.reset_path(prefix)
            CUR = self
            outcome = None
            try:
                outcome = fn(self)
                if self.latched is not None:  # swallowed by a bare except in the code under test
                    raise self.latched
                self.stats["paths"] += 1
                if self.path_obligations:
                    self.stats["nontrivial_paths"] += 1
                if len(self.samples) < 3 and self.path_obligations:
                    self._sample(outcome)
                if on_path:
                    on_path(self, outcome)
            except PathAbort:
                self.stats["aborted"] += 1
            except Violation as v:
                self.stats["paths"] += 1
                self.stats["violations"] += 1
                v.decisions = list(self.decisions)
                v.notes = list(self.notes)
                self.violations.append(v)
            finally:
                CUR = None
            work.extend(self.pending)
            if self.stats["paths"] + self.stats["aborted"] > self.max_paths:
                raise Inconclusive("path budget exhausted")
        return leftover

    def _sample(self, outcome):
        try:
            if self.solver.check() == z3.sat:
                md = self.model_dict()
                self.samples.append({
                    "decisions": len(self.decisions),
                    "obligations_on_path": self.path_obligations,
                    "inputs": {k: _js(v) for k, v in list(md.items())[:40]},
                    "outcome": _js(outcome),
                })
        except z3.Z3Exception:
            pass


def _js(v):
    if isinstance(v, Fraction):
        return float(v) if v.denominator != 1 else int(v)
    if isinstance(v, (int, float, bool, str)) or v is None:
        return v
    if isinstance(v, (list, tuple)):
        return [_js(x) for x in v]
    if isinstance(v, dict):
        return {str(k): _js(x) for k, x in v.items()}
    return str(v)[:200]


# --------------------------------------------------------------------------
# purification (divisions and uninterpreted functions -> fresh reals)
# --------------------------------------------------------------------------
def purify(formulas):
    cache = {}
    side = []
    apps = {}
    counter = [0]

    def fresh():
        counter[0] += 1
        return z3.Real("pur!%d" % counter[0])

    def walk(e):
        k = e.get_id()
        if k in cache:
            return cache[k]
        ch = [walk(c) for c in e.children()]
        dk = e.decl().kind() if z3.is_app(e) else None
        if dk == z3.Z3_OP_DIV:
            q = fresh()
            side.append(z3.Implies(ch[1] != 0, q * ch[1] == ch[0]))
            r = q
        elif dk == z3.Z3_OP_UNINTERPRETED and len(ch) == 1 and e.decl().name() in UF_NAMES:
            v = fresh()
            nm = e.decl().name()
            for (a2, v2) in apps.setdefault(nm, []):
                side.append(z3.Implies(a2 == ch[0], v2 == v))
            apps[nm].append((ch[0], v))
            if nm == "SQRT":
                side.append(z3.Implies(ch[0] >= 0, z3.And(v * v == ch[0], v >= 0)))
            if nm in ("EXP",):
                side.append(v > 0)
            if nm == "EXPIT":
                side.append(z3.And(v > 0, v < 1))
            r = v
        elif ch and z3.is_app(e):
            r = e.decl()(*ch)
        else:
            r = e
        cache[k] = r
        return r

    out = [walk(f) for f in formulas]
    return out + side


# --------------------------------------------------------------------------
# symbolic scalars
# --------------------------------------------------------------------------
def tobool(c):
    if isinstance(c, SymBool):
        return c.e
    if isinstance(c, (bool, z3.BoolRef)):
        return c
    if hasattr(c, "__bool__") or c is None:
        return bool(c)
    return c


def is_sym(x):
    return isinstance(x, (SymInt, SymReal, SymBool, SymStr))


def lift(v):
    if isinstance(v, (SymInt, SymReal, SymBool, SymStr)):
        return v.e
    if isinstance(v, bool):
        return z3.BoolVal(v)
    if isinstance(v, int):
        return z3.IntVal(v)
    if isinstance(v, float):
        if v != v or v in (float("inf"), float("-inf")):
            raise ModelGap("non-finite float in a symbolic expression")
        if v == int(v) and abs(v) < 1e15:
            return z3.RealVal(int(v))
        return z3.RealVal(repr(v))
    if isinstance(v, Fraction):
        return z3.RealVal(str(v))
    if isinstance(v, z3.ExprRef):
        return v
    raise TypeError("cannot lift %r" % type(v))


def _coerce(a, b):
    if a.sort() == b.sort():
        return a, b
    if a.sort() == z3.IntSort() and b.sort() == _R:
        return z3.ToReal(a), b
    if a.sort() == _R and b.sort() == z3.IntSort():
        return a, z3.ToReal(b)
    if a.sort() == z3.BoolSort():
        a = z3.If(a, 1, 0)
        return _coerce(a, b)
    if b.sort() == z3.BoolSort():
        b = z3.If(b, 1, 0)
        return _coerce(a, b)
    raise TypeError("sorts %s %s" % (a.sort(), b.sort()))


def wrap(e):
    e = z3.simplify(e) if False else e
    s = e.sort()
    if s == z3.BoolSort():
        return SymBool(e)
    if s == z3.IntSort():
        return SymInt(e)
    return SymReal(e)


def ite(c, a, b):
    """merge two scalars under a symbolic or concrete condition"""
    if isinstance(c, bool):
        return a if c else b
    ce = c.e if isinstance(c, SymBool) else c
    if z3.is_true(ce):
        return a
    if z3.is_false(ce):
        return b
    if a is b:
        return a
    if not is_sym(a) and not is_sym(b):
        try:
            if type(a) == type(b) and a == b:
                return a
        except Exception:
            pass
    if isinstance(a, str) or isinstance(b, str):
        if isinstance(a, SymStr) and isinstance(b, SymStr):
            return SymStr(z3.If(ce, a.e, b.e))
        raise ModelGap("merge of concrete strings under a symbolic condition")
    ae, be = _coerce(lift(a), lift(b))
    return wrap(z3.If(ce, ae, be))


class SymBool:
    __slots__ = ("e",)

    def __init__(self, e):
        self.e = e

    def __bool__(self):
        return cur().branch(self.e)

    def __and__(self, o):
        if isinstance(o, bool):
            return self if o else False
        if isinstance(o, SymBool):
            return SymBool(z3.And(self.e, o.e))
        return NotImplemented

    __rand__ = __and__

    def __or__(self, o):
        if isinstance(o, bool):
            return True if o else self
        if isinstance(o, SymBool):
            return SymBool(z3.Or(self.e, o.e))
        return NotImplemented

    __ror__ = __or__

    def __xor__(self, o):
        return SymBool(z3.Xor(self.e, lift(o)))

    __rxor__ = __xor__

    def __invert__(self):
        return SymBool(z3.Not(self.e))

    def __eq__(self, o):
        if isinstance(o, (bool, SymBool)):
            return SymBool(self.e == lift(o))
        if isinstance(o, (int, SymInt)):
            return SymInt(z3.If(self.e, 1, 0)) == o
        return NotImplemented

    def __ne__(self, o):
        r = self.__eq__(o)
        return r if r is NotImplemented else ~r

    # arithmetic: booleans count as 0/1
    def _int(self):
        return SymInt(z3.If(self.e, 1, 0))

    def __add__(self, o):
        return self._int() + o

    __radd__ = __add__

    def __mul__(self, o):
        if isinstance(o, (float, SymReal)):
            return ite(self, o, 0.0)
        if isinstance(o, (int, SymInt)) and not isinstance(o, bool):
            return ite(self, o, 0)
        return self._int() * o

    __rmul__ = __mul__

    def __sub__(self, o):
        return self._int() - o

    def __rsub__(self, o):
        return o - self._int()

    def __index__(self):
        return 1 if bool(self) else 0

    __hash__ = None

    def __repr__(self):
        return "<SymBool>"


class _NI(Exception):
    pass


def _num(o):
    if isinstance(o, SymBool):
        return z3.If(o.e, 1, 0)
    if isinstance(o, (SymInt, SymReal)):
        return o.e
    if isinstance(o, bool):
        return z3.IntVal(int(o))
    if isinstance(o, (int, float, Fraction)):
        return lift(o)
    raise _NI()


def _special(o):
    return isinstance(o, float) and (o != o or o in (float("inf"), float("-inf")))


def _binop(f, kind):
    def g(self, o):
        if _special(o):
            return _special_arith(kind, self, o)
        try:
            oe = _num(o)
        except _NI:
            return NotImplemented
        a, b = _coerce(self.e, oe)
        return f(a, b)
    return g


def _special_arith(kind, s, o):
    if o != o:
        if kind in ("lt", "le", "gt", "ge", "eq"):
            return False
        if kind == "ne":
            return True
        return o
    # +-inf
    if kind in ("add", "radd"):
        return o
    if kind == "sub":
        return -o
    if kind == "rsub":
        return o
    if kind in ("lt", "le"):
        return o > 0
    if kind in ("gt", "ge"):
        return o < 0
    if kind == "eq":
        return False
    if kind == "ne":
        return True
    raise ModelGap("arithmetic %s between a symbolic value and infinity" % kind)


def _mk(e):
    return SymReal(e) if e.sort() == _R else SymInt(e)


class SymNum:
    __slots__ = ("e",)

    __add__ = _binop(lambda a, b: _mk(a + b), "add")
    __radd__ = _binop(lambda a, b: _mk(b + a), "radd")
    __sub__ = _binop(lambda a, b: _mk(a - b), "sub")
    __rsub__ = _binop(lambda a, b: _mk(b - a), "rsub")
    __mul__ = _binop(lambda a, b: _mk(a * b), "mul")
    __rmul__ = _binop(lambda a, b: _mk(b * a), "mul")
    __lt__ = _binop(lambda a, b: SymBool(a < b), "lt")
    __le__ = _binop(lambda a, b: SymBool(a <= b), "le")
    __gt__ = _binop(lambda a, b: SymBool(a > b), "gt")
    __ge__ = _binop(lambda a, b: SymBool(a >= b), "ge")
    __eq__ = _binop(lambda a, b: SymBool(a == b), "eq")
    __ne__ = _binop(lambda a, b: SymBool(a != b), "ne")

    def __neg__(self):
        return _mk(-self.e)

    def __pos__(self):
        return self

    def __abs__(self):
        return _mk(z3.If(self.e >= 0, self.e, -self.e))

    def __truediv__(self, o):
        if _special(o):
            raise ModelGap("division by non-finite")
        try:
            oe = _num(o)
        except _NI:
            return NotImplemented
        a = z3.ToReal(self.e) if self.e.sort() == z3.IntSort() else self.e
        b = z3.ToReal(oe) if oe.sort() == z3.IntSort() else oe
        return SymReal(a / b)

    def __rtruediv__(self, o):
        try:
            oe = _num(o)
        except _NI:
            return NotImplemented
        a = z3.ToReal(self.e) if self.e.sort() == z3.IntSort() else self.e
        b = z3.ToReal(oe) if oe.sort() == z3.IntSort() else oe
        return SymReal(b / a)

    def __pow__(self, p):
        if isinstance(p, int) and not isinstance(p, bool) and 0 <= p <= 4:
            r = 1
            for _ in range(p):
                r = r * self
            return r
        if p == 2.0:
            return self * self
        raise ModelGap("power with exponent %r" % (p,))

    def __format__(self, spec):
        return "<sym>"

    def __str__(self):
        return "<sym>"

    def __repr__(self):
        return "<%s>" % type(self).__name__


def _floordiv(a, b):
    q = a / b  # z3: a = b*q + r with 0 <= r < |b|
    return z3.If(b > 0, q, z3.If(a % b == 0, q, q - 1)) if not z3.is_int_value(b) else (
        q if b.as_long() > 0 else z3.If(a % b == 0, q, q - 1))


def _mod(a, b):
    r = a % b
    if z3.is_int_value(b):
        return r if b.as_long() > 0 else z3.If(r == 0, r, r + b)
    return z3.If(b > 0, r, z3.If(r == 0, r, r + b))


class SymInt(SymNum):
    __slots__ = ()

    def __init__(self, e):
        self.e = e

    def _idiv(self, o, f, rev=False):
        if isinstance(o, (float, SymReal)):
            raise ModelGap("floor division / modulo with reals")
        try:
            oe = _num(o)
        except _NI:
            return NotImplemented
        a, b = (oe, self.e) if rev else (self.e, oe)
        return SymInt(f(a, b))

    def __floordiv__(self, o):
        return self._idiv(o, _floordiv)

    def __rfloordiv__(self, o):
        return self._idiv(o, _floordiv, True)

    def __mod__(self, o):
        return self._idiv(o, _mod)

    def __rmod__(self, o):
        return self._idiv(o, _mod, True)

    def __index__(self):
        v = cur().concretize(self.e)
        self.e = z3.IntVal(v)  # sound on this path: the path condition contains e == v
        return v

    __int__ = __index__

    def __hash__(self):
        return hash(self.__index__())

    def __bool__(self):
        return bool(self != 0)

    def __float__(self):
        raise ModelGap("float() of a symbolic integer")

    def item(self):
        return self


class SymReal(SymNum):
    __slots__ = ()

    def __init__(self, e):
        self.e = e

    __hash__ = None

    def __float__(self):
        raise ModelGap("float() of a symbolic real")

    def __round__(self, ndigits=None):
        """round(x, n) as floor(x * 10^n + 1/2) / 10^n: ties go up instead of to even, which only matters on a set of measure
        zero (a counterexample that depends on it would not replay)"""
        scale = 10 ** int(ndigits or 0)
        q = z3.ToInt(self.e * scale + z3.RealVal("1/2"))
        if ndigits is None:
            return SymInt(q)
        return SymReal(z3.ToReal(q) / scale)

    def __bool__(self):
        return bool(self != 0)

    def item(self):
        return self


EMPTY_ATOM = -9000000


class SymStr(str):
    """A string that is only compared, sorted, hashed and copied: an atom of a
    totally ordered sort (its text payload is a placeholder).  One atom has a known text: EMPTY_ATOM is the empty string,
    the least of all strings - so truth tests and comparisons with "" are decidable."""

    def __new__(cls, e):
        o = super().__new__(cls, "<name>")
        o.e = e
        return o

    def _cmp(self, o, f):
        if isinstance(o, SymStr):
            return SymBool(f(self.e, o.e))
        if isinstance(o, str):
            if o == "":
                return SymBool(f(self.e, z3.IntVal(EMPTY_ATOM)))
            raise ModelGap("comparison of a symbolic name with a concrete string %r" % (o,))
        return NotImplemented

    def __bool__(self):
        return bool(SymBool(self.e != EMPTY_ATOM))

    def __eq__(self, o):
        if not isinstance(o, str):
            return False
        return self._cmp(o, lambda a, b: a == b)

    def __ne__(self, o):
        if not isinstance(o, str):
            return True
        return self._cmp(o, lambda a, b: a != b)

    def __lt__(self, o):
        return self._cmp(o, lambda a, b: a < b)

    def __le__(self, o):
        return self._cmp(o, lambda a, b: a <= b)

    def __gt__(self, o):
        return self._cmp(o, lambda a, b: a > b)

    def __ge__(self, o):
        return self._cmp(o, lambda a, b: a >= b)

    def __hash__(self):
        v = cur().concretize(self.e)
        self.e = z3.IntVal(v)
        return hash(("SymStr", v))

    def _gap(self, *a, **k):
        raise ModelGap("string operation on a symbolic name")

    encode = lower = upper = split = strip = startswith = endswith = __add__ = __getitem__ = _gap
    __len__ = _gap

    def __format__(self, spec):
        return "<name>"

    def __str__(self):
        return self

    def __repr__(self):
        return "<SymStr>"


def sorted_sym(xs, key=None):
    """stable insertion sort that forks on the comparisons it makes"""
    out = []
    for x in xs:
        kx = key(x) if key else x
        j = len(out)
        while j > 0 and bool(kx < (key(out[j - 1]) if key else out[j - 1])):
            j -= 1
        out.insert(j, x)
    return out


def source_sha(path, start=None, end=None):
    src = open(path).read()
    return hashlib.sha256(src.encode()).hexdigest()[:16]
