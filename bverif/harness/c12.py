"""C12 - plates are observed atomically; revealing is exact, monotone, value-preserving."""
import json

from .common import cli_main, cli_argv, all_same, concrete_screen

PROPERTY = "C12"
LEVEL = "model_checking"
FUNCTIONS = [
    "batchie.data.Screen.__init__ (per-plate mask uniformity)", "batchie.data.Screen.set_observed",
    "batchie.retrospective.reveal_plates / mask_screen / unmask_screen",
    "batchie.data.Screen.save_h5 / load_h5",
    "batchie.cli.reveal_plate.main", "batchie.cli.extract_screen_metadata.main (through get_parser / get_args with sys.argv set; class lookup by name answered from the loaded modules)",
]
BOUNDS = {
    "quick": "4 rows on 3 plates (two screens), every initial per-plate status, symbolic observation values, every history of 2 operations from {reveal(<=2 plate ids incl. repeated / already observed / unknown ids -1 and n_plates), mask, unmask, save+load, reveal via CLI}; construction: every per-row mask on 4 rows; one screen of 300 single-experiment plates with reveals of ids 255, 256, 299 (thorough: 0, 17 too); construction (3 rows) with observation values of every float class",
    "thorough": "structure A: 4 rows with histories of 3 operations, 5 rows with 2; structure B: 4, 5 and 6 rows (4 plates) with histories of 2 operations; 300 plates with more reveal ids",
}
ASSUMPTIONS = [
    "names/doses are concrete (construction on arbitrary names is C01); observation values are symbolic reals (finite), with separate concrete zero / NaN cases",
    "HDF5 faithful-store model; json/open replaced by an in-memory text file for the CLI steps",
    "a reveal that raises ValueError is accepted exactly when the revealed stored values are all zero (including: no existing plate named) or contain NaN",
]
OUTSIDE = ["histories longer than the bound", "observation values that are NaN/inf other than the dedicated NaN case"]
RULE = "initial status, operation codes and plate-id lists are solver-enumerated; stored values stay symbolic."
BUDGET_S = {"quick": 600, "thorough": 3000}
TASK_QUOTA = 80

ROWS = {
    "A": [("s1", "a", 1.0, "b", 1.0, "p1"), ("s1", "a", 2.0, "b", 1.0, "p2"), ("s2", "a", 1.0, "", 0.0, "p1"),
          ("s2", "b", 2.0, "a", 1.0, "p3"), ("s1", "c", 1.0, "b", 1.0, "p4"), ("s2", "c", 1.0, "", 0.0, "p2")],
    "B": [("s1", "a", 1.0, "b", 1.0, "q"), ("s1", "a", 1.0, "b", 1.0, "q"), ("s2", "a", 1.0, "b", 2.0, "r"),
          ("s3", "b", 1.0, "", 0.0, "p"), ("s3", "b", 1.0, "a", 3.0, "z"), ("s1", "d", 1.0, "", 0.0, "r")],
}


def configs(tier, seed):
    q = tier == "quick"
    out = [dict(name="construct %s" % st, h="construct", st=st, R=4) for st in ("A", "B")]
    out.append(dict(name="construct A, R=3, values of every float class (NaN, +-inf, -0.0)", h="construct", st="A", R=3, special=True))
    for st in ("A", "B"):
        for R, L in (((4, 2),) if q else ((4, 3), (5, 2)) if st == "A" else ((4, 2), (5, 2), (6, 2))):
            out.append(dict(name="history %s R=%d L=%d" % (st, R, L), h="history", st=st, R=R, L=L))
    out.append(dict(name="history A R=4 L=%d, id mappings inherited from a larger space" % (1 if q else 2), h="history", st="A", R=4, L=1 if q else 2, inherited=True))
    out.append(dict(name="reveal-guards", h="guards", st="A", R=4))
    out.append(dict(name="set_observed", h="setobs", st="A", R=4))
    out.append(dict(name="set_observed on a screen constructed without observations", h="setobs", st="A", R=4, no_observations=True))
    out.append(dict(name="300 plates (ids past 255)", h="many", P=300, small=q))
    return out


def fixtures(cfg):
    if cfg["h"] == "many":
        return [dict(ma=0, mb=1, cli=True)]
    v = {"ob%d" % i: 0.1 * (i + 1) for i in range(6)}
    v.update({"mk%d" % i: i % 2 == 0 for i in range(6)})
    v.update({"pm%d" % i: i == 1 for i in range(6)})
    v.update(op0=0, op1=3, op2=4, a0=1, b0=3, a1=0, b1=0, a2=2, b2=2, sel0=True, sel1=False, sel2=True, sel3=False,
             nv0=0.7, nv1=0.8, nv2=0.9, nv3=1.0)
    if cfg.get("special"):
        return [dict(v, **{"ob0#cls": 1, "ob1#cls": 0, "ob2#cls": 2, "mk0": True, "mk1": True, "mk2": True}),
                dict(v, **{"ob0#cls": 1, "ob1#cls": 1, "ob2#cls": 1, "mk0": False, "mk1": False, "mk2": False})]
    v2 = dict(v, op0=1, op1=0, a1=2, b1=4, op2=2)
    v3 = dict(v, op0=4, op1=2, a0=0, b0=1)
    return [v, v2, v3]


def h_construct(ctx, cfg):
    np = ctx.np
    rows = ROWS[cfg["st"]][:cfg["R"]]
    R = len(rows)
    special = cfg.get("special")
    obs = [(ctx.float_bits if special else ctx.real)("ob%d" % i) for i in range(R)]
    mask = [ctx.is_true(ctx.bool("mk%d" % i)) for i in range(R)]
    plates = {}
    for i, r in enumerate(rows):
        plates.setdefault(r[5], []).append(mask[i])
    mixed = any(len(set(v)) > 1 for v in plates.values())
    try:
        s = concrete_screen(ctx, rows, observations=obs, mask=mask)
        ctx.prove(not mixed, "construction accepted only uniformly observed/unobserved plates")
        same_vals = all(ctx.is_true(ctx.same(a, b)) for a, b in zip(s.observations.tolist(), obs)) if special else all_same(ctx, s.observations.tolist(), obs)
        ctx.prove(s.observation_mask.tolist() == mask and same_vals, "constructed screen keeps mask and values")
    except ValueError:
        ctx.prove(mixed, "construction rejected only a plate with mixed observation status")
    s2 = concrete_screen(ctx, rows, observations=obs)
    ctx.prove(s2.observation_mask.tolist() == [True] * R and s2.is_observed, "observations without a mask: all observed")
    s3 = concrete_screen(ctx, rows)
    ctx.prove(s3.observation_mask.tolist() == [False] * R and s3.subset_observed() is None, "no observations: all unobserved")
    try:
        concrete_screen(ctx, rows, mask=mask)
        ctx.fail("mask without observations accepted")
    except ValueError:
        ctx.prove(True, "mask without observations is rejected")
    return mixed


def _meta(ctx, screen, tag):
    fn = ctx.tmp("meta_screen_%s.h5" % tag)
    out = ctx.tmp("meta_%s.json" % tag)
    screen.save_h5(fn)
    cli_argv(ctx, "batchie.cli.extract_screen_metadata", ["--screen", fn, "--output", out])
    return json.loads(ctx.read_text(out))


def _static(s):
    return dict(tn=s.treatment_names.tolist(), td=s.treatment_doses.tolist(), sn=s.sample_names.tolist(),
                pn=s.plate_names.tolist(), obs=s.observations.tolist(),
                sid=[int(x) for x in s.sample_ids.tolist()], tid=[[int(x) for x in r] for r in s.treatment_ids.tolist()],
                pid=[int(x) for x in s.plate_ids.tolist()])


def h_history(ctx, cfg):
    np = ctx.np
    retro = ctx.mod("batchie.retrospective")
    data = ctx.mod("batchie.data")
    rows = ROWS[cfg["st"]][:cfg["R"]]
    R = len(rows)
    pnames = sorted(set(r[5] for r in rows))
    P = len(pnames)
    obs = [ctx.real("ob%d" % i) for i in range(R)]
    pstat = {p: ctx.is_true(ctx.bool("pm%d" % k)) for k, p in enumerate(pnames)}
    mask = [pstat[r[5]] for r in rows]
    kw = {}
    if cfg.get("inherited"):
        # the screen is one part of a larger experiment space (a training screen): its id mappings list a sample and
        # treatments that do not occur in its rows, and not at the end of the id ranges
        bigger = concrete_screen(ctx, [("s0", "Z0", 1.0, "a", 0.5, "x")] + list(ROWS[cfg["st"]]))
        kw = dict(sample_mapping=bigger.sample_mapping, treatment_mapping=bigger.treatment_mapping)
    s = concrete_screen(ctx, rows, observations=obs, mask=mask, **kw)
    base = _static(s)
    cur_mask = list(mask)
    n_unobs = sum(1 for p in pnames if not pstat[p])
    meta0 = _meta(ctx, s, "0")
    ctx.prove(meta0["n_unobserved_plates"] == n_unobs and meta0["n_observed_plates"] == P - n_unobs and meta0["n_plates"] == P,
              "metadata counts observed / unobserved plates")
    hist = []
    earlier = []  # every screen the history has produced so far, with the status and values it had when produced
    for step in range(cfg["L"]):
        earlier.append((s, list(cur_mask), s.observations.tolist()))
        op = int(ctx.int("op%d" % step, 0, 4))
        if op in (0, 4):  # reveal(list of plate ids), directly or through the CLI
            a = int(ctx.int("a%d" % step, -1, P))  # ids -1 and P are unknown
            b = int(ctx.int("b%d" % step, -1, P)) if op == 0 else a
            if b < a:
                ctx.assume(False)  # np.isin ignores the order of the list; repeated ids are kept (a == b)
            ids = [a, b]
            pid_of = dict(zip(s.plate_mapping[0].tolist(), s.plate_mapping[1].tolist()))
            revealed_rows = [i for i in range(R) if pid_of[rows[i][5]] in ids]
            try:
                if op == 0:
                    s2 = retro.reveal_plates(s, ids)
                else:
                    fin, fout = ctx.tmp("in_%d.h5" % step), ctx.tmp("out_%d.h5" % step)
                    s.save_h5(fin)
                    cli_argv(ctx, "batchie.cli.reveal_plate", ["--screen", fin, "--output", fout, "--plate-id"] + ids)
                    s2 = data.Screen.load_h5(fout)
            except ValueError:
                allzero = True
                for i in revealed_rows:
                    allzero = ctx.And(allzero, obs[i] == 0)
                ctx.prove(allzero, "reveal refuses only when the revealed stored values are all zero (or NaN)")
                hist.append(("reveal-refused", ids))
                continue
            want = [cur_mask[i] or (i in revealed_rows) for i in range(R)]
            newly = len({rows[i][5] for i in revealed_rows if not cur_mask[i]})
            hist.append(("reveal" if op == 0 else "reveal-cli", ids))
        elif op == 1:
            s2 = retro.mask_screen(s)
            want = [False] * R
            newly = None
            hist.append(("mask",))
        elif op == 2:
            s2 = retro.unmask_screen(s)
            want = [True] * R
            newly = None
            hist.append(("unmask",))
        else:
            fn = ctx.tmp("hist_%d.h5" % step)
            s.save_h5(fn)
            s2 = data.Screen.load_h5(fn)
            want = list(cur_mask)
            newly = 0
            hist.append(("save+load",))
        got = s2.observation_mask.tolist()
        ctx.prove(got == want, "observed' = observed + revealed existing plates (reveal), all/none (unmask/mask), unchanged (reload)",
                  key="mask after %s" % hist[-1][0])
        for p in pnames:
            st = {got[i] for i in range(R) if rows[i][5] == p}
            ctx.prove(len(st) == 1, "every plate is wholly observed or wholly unobserved after each operation")
        after = _static(s2)
        for f in ("tn", "td", "sn", "pn", "sid", "tid", "pid"):
            ctx.prove(after[f] == base[f], "conditions and plate assignment unchanged by the operation", key="field %s changed by %s" % (f, hist[-1][0]))
        ctx.prove(all_same(ctx, after["obs"], base["obs"]), "stored observation values unchanged by the operation", key="observations changed by %s" % hist[-1][0])
        if newly is not None:
            m = _meta(ctx, s2, "s%d" % step)
            ctx.prove(m["n_unobserved_plates"] == n_unobs - newly, "number of unobserved plates drops by exactly the newly revealed plates")
        # histories branch (two reveals from one masked screen): an operation must leave the screens it was given as they
        # were, otherwise a later reveal from the same screen observes more than "exactly those plates plus the already observed"
        for e_s, e_mask, e_obs in earlier:
            ctx.prove(e_s.observation_mask.tolist() == e_mask and all_same(ctx, e_s.observations.tolist(), e_obs),
                      "the screens an operation was applied to keep their own observation status and values",
                      key="earlier screen modified by %s" % hist[-1][0])
        n_unobs = len({rows[i][5] for i in range(R) if not got[i]})
        cur_mask = got
        s = s2
    return hist


def h_many(ctx, cfg):
    """plate ids beyond every narrow integer range: 300 plates of one experiment each, all unobserved; reveal a solver-chosen
    pair among the ids 0, 17, 255, 256, 299 - directly and through the reveal_plate command - then reveal another one"""
    np = ctx.np
    retro = ctx.mod("batchie.retrospective")
    data = ctx.mod("batchie.data")
    P = cfg["P"]
    rows = [("s%d" % (i % 3), "a", float(i + 1), "b", 1.0, "p%04d" % i) for i in range(P)]
    vals = [0.25 + 0.001 * i for i in range(P)]
    s = concrete_screen(ctx, rows, observations=vals, mask=[False] * P)
    pid = [int(x) for x in s.plate_ids.tolist()]
    first, second = ([256], [255, P - 1]) if cfg["small"] else ([255, 256, 17], [0, 255, 256, P - 1])
    a = first[int(ctx.int("ma", 0, len(first) - 1))]
    b = second[int(ctx.int("mb", 0, len(second) - 1))]
    via_cli = ctx.is_true(ctx.bool("cli"))
    if via_cli:
        fin, fout = ctx.tmp("many_in.h5"), ctx.tmp("many_out.h5")
        s.save_h5(fin)
        cli_argv(ctx, "batchie.cli.reveal_plate", ["--screen", fin, "--output", fout, "--plate-id", a])
        s1 = data.Screen.load_h5(fout)
    else:
        s1 = retro.reveal_plates(s, [a])
    s2 = retro.reveal_plates(s1, [b])
    for label, scr, want_ids in (("first reveal", s1, {a}), ("second reveal", s2, {a, b})):
        got = scr.observation_mask.tolist()
        ctx.prove(got == [pid[i] in want_ids for i in range(P)], "revealing makes exactly the named plates (plus the already observed) observed (300 plates)",
                  key="mask after reveal (ids past 255)")
        ctx.prove([int(x) for x in scr.plate_ids.tolist()] == pid and scr.plate_names.tolist() == [r[5] for r in rows],
                  "plate assignment unchanged (300 plates)", key="plate ids changed (ids past 255)")
        ctx.prove(all_same(ctx, scr.observations.tolist(), vals), "stored observation values unchanged (300 plates)")
        if label == "second reveal":
            m = _meta(ctx, scr, "many")
            ctx.prove(m["n_unobserved_plates"] == P - len(want_ids) and m["n_plates"] == P, "number of unobserved plates drops by exactly the newly revealed plates")
    ctx.prove(not any(s.observation_mask.tolist()), "the screen revealed from is left as it was")
    return [a, b]


def h_guards(ctx, cfg):
    retro = ctx.mod("batchie.retrospective")
    rows = ROWS[cfg["st"]][:cfg["R"]]
    R = len(rows)
    pnames = sorted(set(r[5] for r in rows))
    for case in ("zeros", "nan", "ok"):
        obs = [0.5] * R
        target = pnames[1]
        for i in range(R):
            if rows[i][5] == target:
                obs[i] = 0.0 if case == "zeros" else (float("nan") if case == "nan" and i == [k for k in range(R) if rows[k][5] == target][0] else obs[i])
        s = concrete_screen(ctx, rows, observations=obs, mask=[False] * R)
        pid = dict(zip(s.plate_mapping[0].tolist(), s.plate_mapping[1].tolist()))[target]
        try:
            retro.reveal_plates(s, [pid])
            ctx.prove(case == "ok", "reveal of a plate with usable values succeeds; all-zero / NaN plates are refused")
        except ValueError:
            ctx.prove(case != "ok", "reveal refuses plates whose stored values are all zero or contain NaN")
    return 1


def h_setobs(ctx, cfg):
    np = ctx.np
    rows = ROWS[cfg["st"]][:cfg["R"]]
    R = len(rows)
    ctx.f32_visible(True)  # a narrowing of the stored values on the way in would be visible
    if cfg.get("no_observations"):
        # a prospective screen: constructed without observations (all unobserved, placeholder values 0)
        obs = [0.0] * R
        s = concrete_screen(ctx, rows)
        ctx.prove(not any(s.observation_mask.tolist()), "no observations given: everything unobserved")
    else:
        obs = [ctx.real("ob%d" % i) for i in range(R)]
        s = concrete_screen(ctx, rows, observations=obs, mask=[False] * R)
    sel = [ctx.is_true(ctx.bool("sel%d" % i)) for i in range(R)]
    k = sum(sel)
    new = [ctx.real_bits("nv%d" % i) for i in range(k)]
    s.set_observed(np.array(sel, dtype=bool), np.array(new, dtype=float))
    got_m, got_o = s.observation_mask.tolist(), s.observations.tolist()
    j = 0
    for i in range(R):
        if sel[i]:
            ctx.prove(got_m[i] is True or got_m[i] == True, "set_observed marks exactly the selected rows")  # noqa: E712
            ctx.prove(ctx.same(got_o[i], new[j]), "set_observed stores exactly the given values at the selected rows")
            j += 1
        else:
            ctx.prove(not got_m[i], "set_observed marks exactly the selected rows")
            ctx.prove(ctx.same(got_o[i], obs[i]), "set_observed leaves other rows' values alone")
    for bad in ("mask", "values"):
        try:
            if bad == "mask":
                s.set_observed(np.array([1] * R, dtype=int), np.array(new, dtype=float))
            else:
                s.set_observed(np.array(sel, dtype=bool), np.array([1] * k, dtype=int))
            ctx.fail("set_observed accepted a %s of the wrong type" % bad)
        except ValueError:
            ctx.prove(True, "set_observed validates its argument types")
    return k


def run(ctx, cfg):
    return {"construct": h_construct, "history": h_history, "guards": h_guards, "setobs": h_setobs, "many": h_many}[cfg["h"]](ctx, cfg)
