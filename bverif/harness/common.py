"""helpers shared by harnesses"""
import argparse


def cli_main(ctx, modname, **args):
    """run a batchie CLI entry point with its argument parser stubbed (argv is not part of any property)
    and logging configuration given an empty body"""
    mod = ctx.mod(modname)
    lc = ctx.mod("batchie.log_config")
    ns = argparse.Namespace(verbose=False, progress=False, **args)
    saved = (mod.get_args, lc.configure_logging)
    mod.get_args = lambda: ns
    lc.configure_logging = lambda a: None
    try:
        return mod.main()
    finally:
        mod.get_args, lc.configure_logging = saved


CLASS_MODULES = ["batchie.scoring.size", "batchie.scoring.rand", "batchie.scoring.gaussian_dbal", "batchie.policies.k_per_sample",
                 "batchie.distance.mse", "batchie.retrospective", "batchie.models.sparse_combo", "batchie.models.sparse_combo_interaction"]


def cli_argv(ctx, modname, argv):
    """run a batchie CLI entry point through its own argument parser: sys.argv is set, get_args() runs as written.  Only
    the lookup of a class by name (introspection.get_class walks the installed package with importlib) is answered from
    the modules loaded by the verification loader, and logging configuration is given an empty body."""
    import sys
    mod = ctx.mod(modname)
    lc = ctx.mod("batchie.log_config")
    intro = ctx.mod("batchie.introspection")
    saved = (sys.argv, lc.configure_logging, intro.get_class)

    def get_class(package_name, class_name, base_class):
        for m in CLASS_MODULES:
            cls = getattr(ctx.mod(m), class_name, None)
            if cls is not None:
                if not issubclass(cls, base_class):
                    raise ValueError("The class '%s' is not a subclass of '%s'" % (class_name, base_class.__name__))
                return cls
        return None
    sys.argv = [modname.rsplit(".", 1)[-1]] + [str(a) for a in argv]
    lc.configure_logging = lambda a: None
    if ctx.mode != "real":
        intro.get_class = get_class
    try:
        return mod.main()
    finally:
        sys.argv, lc.configure_logging, intro.get_class = saved


def flat(x):
    if isinstance(x, (list, tuple)):
        out = []
        for v in x:
            out.extend(flat(v))
        return out
    return [x]


def all_same(ctx, a, b):
    x, y = flat(a), flat(b)
    if len(x) != len(y):
        return False
    ok = True
    for u, v in zip(x, y):
        ok = ctx.And(ok, ctx.same(u, v))
    return ok


def all_eq(ctx, a, b):
    x, y = flat(a), flat(b)
    if len(x) != len(y):
        return False
    ok = True
    for u, v in zip(x, y):
        ok = ctx.And(ok, ctx.eq(u, v))
    return ok


def concrete_screen(ctx, rows, observations=None, mask=None, control="", **kw):
    """rows: (sample, t1, d1, t2, d2, plate) tuples with concrete names/doses"""
    np = ctx.np
    data = ctx.mod("batchie.data")
    extra = {}
    if observations is not None:
        extra["observations"] = np.array(observations, dtype=float)
    if mask is not None:
        extra["observation_mask"] = np.array(mask, dtype=bool)
    extra.update(kw)
    return data.Screen(
        treatment_names=np.array([[r[1], r[3]] for r in rows], dtype=str),
        treatment_doses=np.array([[r[2], r[4]] for r in rows], dtype=float),
        sample_names=np.array([r[0] for r in rows], dtype=str),
        plate_names=np.array([r[5] for r in rows], dtype=str),
        control_treatment_name=control, **extra)
