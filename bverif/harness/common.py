"""helpers shared by harnesses"""
import argparse


def cli_main(ctx, modname, **args):
    """run a batchie CLI entry point with its argument parser stubbed (argv is not part of any property)
    and logging configuration given an empty body"""
    mod = ctx.mod(modname)
    lc = ctx.mod("batchie.log_config")
    ns = argparse.Namespace(verbose=False, progress=False, **args)
    saved = (mod.get_args, lc.configure_logging)
    mod.get_args = lambda: ns
    lc.configure_logging = lambda a: None
    try:
        return mod.main()
    finally:
        mod.get_args, lc.configure_logging = saved


def flat(x):
    if isinstance(x, (list, tuple)):
        out = []
        for v in x:
            out.extend(flat(v))
        return out
    return [x]


def all_same(ctx, a, b):
    x, y = flat(a), flat(b)
    if len(x) != len(y):
        return False
    ok = True
    for u, v in zip(x, y):
        ok = ctx.And(ok, ctx.same(u, v))
    return ok


def all_eq(ctx, a, b):
    x, y = flat(a), flat(b)
    if len(x) != len(y):
        return False
    ok = True
    for u, v in zip(x, y):
        ok = ctx.And(ok, ctx.eq(u, v))
    return ok


def concrete_screen(ctx, rows, observations=None, mask=None, control="", **kw):
    """rows: (sample, t1, d1, t2, d2, plate) tuples with concrete names/doses"""
    np = ctx.np
    data = ctx.mod("batchie.data")
    extra = {}
    if observations is not None:
        extra["observations"] = np.array(observations, dtype=float)
    if mask is not None:
        extra["observation_mask"] = np.array(mask, dtype=bool)
    extra.update(kw)
    return data.Screen(
        treatment_names=np.array([[r[1], r[3]] for r in rows], dtype=str),
        treatment_doses=np.array([[r[2], r[4]] for r in rows], dtype=float),
        sample_names=np.array([r[0] for r in rows], dtype=str),
        plate_names=np.array([r[5] for r in rows], dtype=str),
        control_treatment_name=control, **extra)
