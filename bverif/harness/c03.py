"""C03 - identifiers stay stable through the whole simulation lifecycle."""
from .common import cli_main, cli_argv, all_eq, concrete_screen

PROPERTY = "C03"
LEVEL = "model_checking"
FUNCTIONS = [
    "batchie.retrospective.create_plate_balanced_holdout_set_among_masked_plates / create_random_holdout",
    "batchie.retrospective.reveal_plates / mask_screen / unmask_screen",
    "batchie.data.Screen.save_h5 / load_h5 / __init__ (with supplied mappings)",
    "batchie.cli.reveal_plate.main (through get_parser / get_args with sys.argv set; class lookup by name answered from the loaded modules)",
    "batchie.models.sparse_combo.predict (consequence clause)",
]
BOUNDS = {
    "quick": "prepared screens of 5 rows (and 7 rows with one operation, and the random hold-out) (1 observed plate, 2 unobserved plates of 2 rows, all conditions and 3 of 5 samples distinct), every hold-out choice the generator can make (fraction 1/2), every history of <=2 operations from {reveal(plate), mask, unmask, save+load, reveal via CLI}; one configuration whose labels differ only by surrounding white space",
    "thorough": "5 rows with histories of <=4 operations; 7 rows / 3 unobserved plates with histories of <=3 operations, fractions 1/2, 1/3 and 2/3, random hold-out with 2 operations; generated screen structures of up to 8 rows with histories of 2 (8 of them: 3) operations",
}
ASSUMPTIONS = [
    "rng.choice(a, k, replace=False) returns an arbitrary k-subset (every one explored)",
    "names/doses concrete and pairwise distinct enough that every hold-out choice removes a condition from the training rows; arbitrary names are C01's business",
    "HDF5 faithful-store model",
]
OUTSIDE = ["histories longer than the bound", "Screen.combine / ScreenSubset.to_screen (documented as renumbering, used before the split only)"]
RULE = "hold-out choices, operation codes and revealed plates are solver-enumerated."
BUDGET_S = {"quick": 600, "thorough": 3000}
TASK_QUOTA = 60

# two doses of one treatment that agree to six decimals (1.0 and 1.0000003: distinct conditions, distinct ids);
# names of pairwise different lengths: whichever sample / treatment ends up only in held-out rows may be the longest one
ROWS5 = [("s2", "d", 1.0, "e", 1.0, "obs"), ("s0-long-name", "a", 1.0, "bb", 2.0, "u1"), ("s1x", "cccc-long", 1.0, "bb", 1.0, "u1"),
         ("s2", "a", 1.0000003, "ffffff-longer", 1.0, "u2"), ("s1x", "g-the-longest-name", 1.0, "", 0.0, "u2")]
ROWS7 = ROWS5 + [("s3-the-longest-sample", "h", 1.0, "a", 1.0, "u3"), ("s0-long-name", "bb", 3.0, "cccc-long", 2.0, "u3")]


def configs(tier, seed):
    if tier == "quick":
        return [dict(name="lifecycle R=5 L=2", h="life", R=5, L=2, num=1, den=2, split="balanced"),
                dict(name="lifecycle R=7 L=1", h="life", R=7, L=1, num=1, den=2, split="balanced"),
                dict(name="lifecycle R=5 L=1 random-holdout", h="life", R=5, L=1, num=2, den=5, split="random"),
                dict(name="lifecycle R=5 L=1, labels differing only by surrounding white space", h="life", R=5, L=1, num=1, den=2, split="balanced", ws=True),
                dict(name="lifecycle R=5 L=1, id spaces of 300 (ids past 256 in use)", h="life", R=5, L=1, num=1, den=2, split="balanced", big_map=300)]
    out = [dict(name="lifecycle R=5 L=3", h="life", R=5, L=3, num=1, den=2, split="balanced"),
           dict(name="lifecycle R=5 L=4", h="life", R=5, L=4, num=1, den=2, split="balanced"),
           dict(name="lifecycle R=7 L=3", h="life", R=7, L=3, num=1, den=2, split="balanced"),
           dict(name="lifecycle R=7 L=2 third", h="life", R=7, L=2, num=1, den=3, split="balanced"),
           dict(name="lifecycle R=7 L=2 random-holdout", h="life", R=7, L=2, num=2, den=5, split="random"),
           dict(name="lifecycle R=5 L=2 random-holdout", h="life", R=5, L=2, num=2, den=5, split="random"),
           dict(name="lifecycle R=5 L=3 two thirds", h="life", R=5, L=3, num=2, den=3, split="balanced")]
    out.append(dict(name="lifecycle R=5 L=2, id spaces of 300 (ids past 256 in use)", h="life", R=5, L=2, num=1, den=2, split="balanced", big_map=300))
    out.append(dict(name="lifecycle R=7 L=2, labels differing only by surrounding white space", h="life", R=7, L=2, num=1, den=2, split="balanced", ws=True))
    out.append(dict(name="lifecycle R=7 L=1, id spaces of 600", h="life", R=7, L=1, num=1, den=2, split="balanced", big_map=600))
    # generated screen structures (retro_common.generated_family), names replaced by names of different lengths
    from .retro_common import family
    for k in range(N_GENERATED):
        rows = family("G%d" % k)
        if len(rows) > 8 or all(r[5] == "obs" for r in rows):
            continue
        L = 3 if k < 8 else 2
        out.append(dict(name="lifecycle G%d (%d rows) L=%d" % (k, len(rows), L), h="life", R=len(rows), fam="G%d" % k, L=L, num=1, den=2, split="balanced"))
    return out


N_GENERATED = 24
RENAME = {"a": "a", "b": "bb", "c": "cccc-long", "d": "ffffff-longer", "": "", "s1": "s1x", "s2": "s2", "s3": "s3-the-longest-sample"}


def _rows(cfg):
    if cfg.get("fam"):
        from .retro_common import family
        return [(RENAME[r[0]], RENAME[r[1]], r[2], RENAME[r[3]], r[4], r[5]) for r in family(cfg["fam"])]
    rows = (ROWS5 if cfg["R"] == 5 else ROWS7)[:cfg["R"]]
    if cfg.get("ws"):
        # labels that differ only by surrounding white space are different samples / treatments ("s2 " next to "s2")
        rows = [tuple(v + " " if (i, k) in ((0, 0), (2, 3)) else " " + v if (i, k) == (3, 1) else v for k, v in enumerate(r)) for i, r in enumerate(rows)]
    return rows


def fixtures(cfg):
    base = {"R.pick%d" % i: (i * 7 + 1) % 3 for i in range(12)}
    base.update({"ob%d" % i: 0.2 + 0.1 * i for i in range(10)})
    base.update({"x%d" % i: 0.05 * (i + 1) for i in range(60)})
    base.update(prec=1.0, op0=0, rp0=1, op1=3, rp1=0, op2=1, rp2=0)
    return [base, dict(base, op0=4, rp0=2, op1=2), dict(base, op0=1, op1=0, rp1=1)]


def _lookup_tid(parent_map, name, dose):
    for n, d, i in zip(*parent_map):
        if n == name and d == dose:
            return i
    return None


def _check_stage(ctx, stage, parent, label, theta, ref_pred_of):
    tmap = [x.tolist() for x in parent.treatment_mapping]
    smap = dict(zip(parent.sample_mapping[0].tolist(), parent.sample_mapping[1].tolist()))
    tn, td, sn = stage.treatment_names.tolist(), stage.treatment_doses.tolist(), stage.sample_names.tolist()
    tid, sid = stage.treatment_ids.tolist(), stage.sample_ids.tolist()
    ok_t, ok_s = True, True
    for r in range(len(sn)):
        ok_s = ok_s and (sid[r] == smap[sn[r]])
        for c in range(2):
            ok_t = ok_t and (tid[r][c] == _lookup_tid(tmap, tn[r][c], td[r][c]))
    ctx.prove(ok_s, "same sample name => same sample id as in the prepared screen", key="sample ids renumbered by %s" % label)
    ctx.prove(ok_t, "same (treatment, dose) => same treatment id as in the prepared screen", key="treatment ids renumbered by %s" % label)
    # the stage's own mappings say the same as the prepared screen's: same name <-> same id, row by row
    st_s = sorted(zip(stage.sample_mapping[0].tolist(), [int(x) for x in stage.sample_mapping[1].tolist()]))
    pa_s = sorted(zip(parent.sample_mapping[0].tolist(), [int(x) for x in parent.sample_mapping[1].tolist()]))
    ctx.prove(st_s == pa_s, "the stage's sample mapping lists the same (name, id) pairs as the prepared screen's", key="sample mapping changed by %s" % label)
    st_t = sorted(zip(stage.treatment_mapping[0].tolist(), stage.treatment_mapping[1].tolist(), [int(x) for x in stage.treatment_mapping[2].tolist()]))
    pa_t = sorted(zip(parent.treatment_mapping[0].tolist(), parent.treatment_mapping[1].tolist(), [int(x) for x in parent.treatment_mapping[2].tolist()]))
    ctx.prove(st_t == pa_t, "the stage's treatment mapping lists the same (name, dose, id) rows as the prepared screen's", key="treatment mapping changed by %s" % label)
    ctx.prove(stage.sample_space_size >= parent.sample_space_size and stage.treatment_space_size >= parent.treatment_space_size,
              "embedding sizes implied by the screen never shrink", key="mapping shrunk by %s" % label)
    if ok_s and ok_t:
        pred = theta.predict_conditional_mean(stage).tolist()
        want = [ref_pred_of[(sn[r], tn[r][0], td[r][0], tn[r][1], td[r][1])] for r in range(len(sn))]
        ctx.prove(all_eq(ctx, pred, want), "a posterior sample predicts identically for the same experiments on every stage",
                  key="predictions differ after %s" % label)


def h_life(ctx, cfg):
    np = ctx.np
    retro = ctx.mod("batchie.retrospective")
    data = ctx.mod("batchie.data")
    sc = ctx.mod("batchie.models.sparse_combo")
    rows = _rows(cfg)
    R = len(rows)
    obs = [ctx.real("ob%d" % i, positive=True) for i in range(R)]
    mask = [r[5] == "obs" for r in rows]
    kw = {}
    if cfg.get("big_map"):
        # a prepared simulation whose id spaces are much larger than the rows at hand (ids past 255 / 256 in use)
        N = cfg["big_map"]
        snames = sorted({r[0] for r in rows}) + ["zs%03d" % i for i in range(N)]
        order = list(range(len(snames)))[::-1]   # the rows' samples get the highest ids
        kw["sample_mapping"] = (np.array(snames, dtype=str), np.array(order, dtype=int))
        conds = sorted({(r[1], r[2]) for r in rows if r[1] != "" and r[2] > 0} | {(r[3], r[4]) for r in rows if r[3] != "" and r[4] > 0})
        tn = [c[0] for c in conds] + ["zt%03d" % i for i in range(N)] + [""]
        td = [c[1] for c in conds] + [1.0] * N + [0.0]
        ti = list(range(len(tn) - 1))[::-1] + [-1]
        kw["treatment_mapping"] = (np.array(tn, dtype=str), np.array(td, dtype=float), np.array(ti, dtype=int))
    parent = concrete_screen(ctx, rows, observations=obs, mask=mask, **kw)
    frac = cfg["num"] / float(cfg["den"])
    rng = ctx.rng("R")
    if cfg["split"] == "balanced":
        train, test = retro.create_plate_balanced_holdout_set_among_masked_plates(parent, frac, rng)
    else:
        train, test = retro.create_random_holdout(parent, frac, rng)
    nS, nT, D = parent.sample_space_size, parent.treatment_space_size, 1
    k = [0]

    def x():
        k[0] += 1
        return ctx.real("x%d" % k[0])
    theta = sc.SparseDrugComboMCMCSample(
        W=np.array([[x() for _ in range(D)] for _ in range(nS)], dtype=float), W0=np.array([x() for _ in range(nS)], dtype=float),
        V2=np.array([[x() for _ in range(D)] for _ in range(nT)], dtype=float), V1=np.array([[x() for _ in range(D)] for _ in range(nT)], dtype=float),
        V0=np.array([x() for _ in range(nT)], dtype=float), alpha=x(), precision=ctx.real("prec", positive=True))
    ref = theta.predict_conditional_mean(parent).tolist()
    ref_pred_of = {(r[0], r[1], r[2], r[3], r[4]): ref[i] for i, r in enumerate(rows)}
    ctx.prove(train.size + test.size == R, "training + hold-out = prepared screen")
    _check_stage(ctx, train, parent, "the hold-out split (training)", theta, ref_pred_of)
    _check_stage(ctx, test, parent, "the hold-out split (test)", theta, ref_pred_of)
    # the model trained on the training screen (train_model command) sizes its embeddings by the prepared screen's id spaces
    if cfg.get("train", True) and cfg["L"] <= 2:
        tm = ctx.mod("batchie.cli.train_model")
        captured = {}

        def fake_sample(model, results, **kw2):
            captured["model"] = model
            results.add_theta(model.get_model_state())
            return results
        tfn = ctx.tmp("train_for_model.h5")
        train.save_h5(tfn)
        saved_sample = tm.sampling.sample
        tm.sampling.sample = fake_sample
        try:
            cli_argv(ctx, "batchie.cli.train_model", ["--data", tfn, "--model", "SparseDrugCombo", "--model-param", "n_embedding_dimensions=1",
                                                      "--output", ctx.tmp("thetas_for_model.h5"), "--n-samples", 1, "--n-burnin", 0, "--thin", 1])
        finally:
            tm.sampling.sample = saved_sample
        if "model" in captured:
            m = captured["model"]
            ctx.prove(m.n_unique_samples == parent.sample_space_size and m.n_unique_treatments == len([i for i in parent.treatment_mapping[2].tolist() if i != -1]),
                      "the model trained on the training screen has one embedding row per sample / treatment id of the prepared screen",
                      key="embedding sizes of the trained model differ from the prepared screen's id spaces")

    def snap(x):
        return (x.sample_ids.tolist(), x.treatment_ids.tolist(), [a.tolist() for a in x.sample_mapping], [a.tolist() for a in x.treatment_mapping],
                x.observation_mask.tolist(), x.plate_ids.tolist())
    stages = [("prepared screen", parent, snap(parent)), ("training screen", train, snap(train)), ("test screen", test, snap(test))]
    cur = train
    hist = []
    for step in range(cfg["L"]):
        op = int(ctx.int("op%d" % step, 0, 4))
        nplates = len(cur.plate_mapping[1].tolist())
        if op in (0, 4):
            pid = int(ctx.int("rp%d" % step, 0, max(nplates - 1, 0)))
            if op == 0:
                cur = retro.reveal_plates(cur, [pid])
                label = "reveal_plates"
            else:
                fin, fout = ctx.tmp("in_%d.h5" % step), ctx.tmp("out_%d.h5" % step)
                cur.save_h5(fin)
                cli_argv(ctx, "batchie.cli.reveal_plate", ["--screen", fin, "--output", fout, "--plate-id", pid])
                cur = data.Screen.load_h5(fout)
                label = "the reveal_plate command"
        elif op == 1:
            cur, label = retro.mask_screen(cur), "mask_screen"
        elif op == 2:
            cur, label = retro.unmask_screen(cur), "unmask_screen"
        else:
            fn = ctx.tmp("s_%d.h5" % step)
            cur.save_h5(fn)
            cur, label = data.Screen.load_h5(fn), "save/load"
        hist.append(label)
        _check_stage(ctx, cur, parent, label, theta, ref_pred_of)
        # ids are stable for the screens already handed out, too: a later stage never renumbers or re-masks an earlier one
        for what, x, before in stages:
            ctx.prove(snap(x) == before, "an earlier stage keeps its ids, mappings and observation status when a later stage is derived from it",
                      key="%s modified by %s" % (what, label))
        stages.append(("stage %d" % step, cur, snap(cur)))
    return hist


def run(ctx, cfg):
    return h_life(ctx, cfg)
