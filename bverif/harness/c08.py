"""C08 - each Gibbs block draws from the exact full conditional of the documented model.

One inductive step from an arbitrary valid sampler state, per block.  The oracle is an independent derivation:
the model's log joint density written as one loop-based function of all parameters (fitted values recomputed from
scratch, never from the sampler's running cache).  For a Gaussian block the conditional precision and linear term
are exact second differences of that (quadratic) function; gamma blocks use the conjugate update read off the same
density."""
from .common import all_eq

PROPERTY = "C08"
LEVEL = "model_checking"
FUNCTIONS = [
    "batchie.models.sparse_combo.LegacySparseDrugComboImpl._alpha_step/_W0_step/_V0_step/_W_step/_V2_step/_V1_step",
    "batchie.models.sparse_combo.LegacySparseDrugComboImpl._prec_obs_step/_prec_W0_step/_prec_W_step (gamma blocks, clipping)",
    "batchie.models.sparse_combo.LegacySparseDrugComboImpl.mcmc_step/_reconstruct_Mu/get/_update/encode_obs/n_obs",
    "batchie.models.sparse_combo.SparseDrugCombo.get_model_state / step", "batchie.models.sparse_combo.predict",
    "batchie.fast_mvn.sample_mvn_from_precision (under LAPACK contracts)",
]
BOUNDS = {
    "quick": "2 samples, 2 treatments (+control), embedding size 1, n_obs<=2: every data structure (which sample, which treatment in which position, control in either or both positions, samples/treatments without data) enumerated by the solver; every parameter, hyper-parameter and observation symbolic; MVN contract for dimension<=2; one configuration in which a sampler step is taken between the first and the second observation; a whole mcmc_step from an arbitrary state with one observation: fitted values at the entry of the first block",
    "thorough": "2 samples, 3 treatments, embedding sizes 1 and 2, n_obs<=2 (all structures) and n_obs=3 on a sampled set of structures; MVN contract for dimension<=3",
}
ASSUMPTIONS = [
    "pre-state: arbitrary parameter values with precisions > 0 and the running fitted values equal to those implied by the parameters (the inductive hypothesis; re-proved after every block)",
    "rows with the same non-control treatment in both positions are excluded (the conditional of its embedding is not Gaussian there)",
    "np.random.normal / gamma return fresh unknowns (gamma > 0) and log their parameters; the gamma rate's '+1e-3' stabiliser is read as part of the documented prior rate",
    "LAPACK: cholesky(Q)=L lower triangular, positive diagonal, L L^T = Q; solve_triangular / cho_solve return the solution of the triangular / factored system, reading one triangle",
    "floats are reals (the sampler's float32 state is treated as real-valued); sqrt axiomatised by sqrt(x)^2 = x, sqrt(x) >= 0",
]
OUTSIDE = ["float32 storage of the state", "horseshoe blocks _prec_V2/_prec_V1/_prec_V0 beyond 'visited once, in order'",
           "non-default options (fake_intercept=False, mult_gamma_proc=False)", "the interaction model's sampler", "convergence / mixing"]
RULE = "one path per data structure (solver-enumerated ids); all real quantities symbolic; every obligation is a polynomial / rational identity decided by z3 (nlsat after purification when needed)."
BUDGET_S = {"quick": 600, "thorough": 3000}
TASK_QUOTA = 12
NUMERIC_FIRST = 3
FAST_REAL = True  # obligations are first tried from their cone of influence only (sound: fewer hypotheses)
SOLVER_TIMEOUT_MS = 20000
PROVE_TIMEOUT_MS = 60000


def configs(tier, seed):
    q = tier == "quick"
    out = []
    shapes = [(2, 2, 1, 1), (2, 2, 1, 2)] if q else [(2, 3, 1, 1), (2, 3, 1, 2), (2, 2, 2, 2), (2, 3, 2, 2)]
    for nS, nT, D, N in shapes:
        out.append(dict(name="blocks nS=%d nT=%d D=%d N=%d" % (nS, nT, D, N), h="blocks", nS=nS, nT=nT, D=D, N=N))
    out.append(dict(name="blocks no data", h="blocks", nS=2, nT=2, D=1, N=0))
    out.append(dict(name="blocks nS=2 nT=2 D=1 N=2, second observation arrives after a sampler step", h="blocks", nS=2, nT=2, D=1, N=2, warm=1))
    if not q:
        out.append(dict(name="blocks nS=2 nT=2 D=1 N=3 (sampled structures)", h="blocks", nS=2, nT=2, D=1, N=3, sample=40))
    out.append(dict(name="sweep order", h="sweep", nS=2, nT=2, D=1))
    out.append(dict(name="start of a step from an arbitrary state with data", h="sweep", nS=2, nT=2, D=1, N=1))
    for d in ((3,) if q else (3, 4)):
        out.append(dict(name="embedding-scale block D=%d" % d, h="taublock", nS=2, nT=1, D=d, N=0))
    for d in ((1, 2) if q else (1, 2, 3)):
        out.append(dict(name="mvn contract D=%d" % d, h="mvn", D=d))
    out.append(dict(name="exported sample", h="export", nS=2, nT=2, D=1, N=2))
    return out


def fixtures(cfg):
    if cfg["h"] == "mvn":
        return []  # the LAPACK contracts are themselves the model here; the replay runs real numpy / scipy
    import random
    r = random.Random(3)
    v = {}
    for k in range(200):
        v["p%d" % k] = r.uniform(-1.0, 1.0)
        v["q%d" % k] = r.uniform(0.3, 2.5)
    for i in range(4):
        v["y%d" % i] = r.uniform(-2, 2)
        v["c%d" % i] = r.randrange(2)
        v["a%d" % i] = [0, -1, 1, 0][i]
        v["b%d" % i] = [1, 0, -1, -1][i]
    for k in range(60):
        v["G.normal%d" % k] = r.uniform(-1, 1)
        v["G.gamma%d" % k] = r.uniform(0.2, 3.0)
        v["mvn%d" % k] = r.uniform(-1, 1)
        v["z%d" % k] = r.uniform(-1, 1)
    return [v]


# ------------------------------------------------------------------------------------------------ state
class _Sym:
    def __init__(self, ctx):
        self.ctx, self.kp, self.kq = ctx, 0, 0

    def real(self):
        self.kp += 1
        return self.ctx.real("p%d" % self.kp)

    def pos(self):
        self.kq += 1
        return self.ctx.real("q%d" % self.kq, positive=True)

    def mat(self, n, m, f):
        return [[f() for _ in range(m)] for _ in range(n)]

    def vec(self, n, f):
        return [f() for _ in range(n)]


def _mk_state(ctx, sc, cfg):
    np = ctx.np
    nS, nT, D, N = cfg["nS"], cfg["nT"], cfg["D"], cfg["N"]
    m = sc.LegacySparseDrugComboImpl(n_dims=D, n_drugdoses=nT, n_clines=nS)
    ys = [ctx.real("y%d" % i) for i in range(N)]
    cl, d1, d2 = [], [], []
    for i in range(N):
        c = int(ctx.int("c%d" % i, 0, nS - 1))
        a = int(ctx.int("a%d" % i, -1, nT - 1))
        b = int(ctx.int("b%d" % i, -1, nT - 1))
        if a == b and a != -1:
            ctx.assume(False)
        cl.append(c); d1.append(a); d2.append(b)
    if cfg.get("sample") and N:
        # thorough tier, n_obs=3: a fixed pseudo-random subset of the structures (stated as a cut in BOUNDS)
        code = 0
        for c, a, b in zip(cl, d1, d2):
            code = code * 97 + (c * 31 + (a + 1) * 7 + (b + 1))
        if (code * 2654435761) % 1000 >= cfg["sample"]:
            ctx.assume(False)
    for i in range(N):
        if cfg.get("warm") is not None and i == cfg["warm"]:
            # a history: a sampler step is taken with only the first observations in, then more data arrive (the next plate).
            # Whatever that step derived from the data must not outlive the new observations; its parameter values are
            # overwritten below by the arbitrary state, so only such left-overs can make a difference.
            m.mcmc_step()
        m._update(ys[i], cl[i], d1[i], d2[i])
    s = _Sym(ctx)
    P = dict(W=s.mat(nS, D, s.real), W0=s.vec(nS, s.real), V2=s.mat(nT, D, s.real), V1=s.mat(nT, D, s.real), V0=s.vec(nT, s.real),
             alpha=s.real())
    H = dict(prec=s.pos(), tau=s.vec(D, s.pos), tau0=s.pos(), phi2=s.mat(nT, D, s.pos), phi1=s.mat(nT, D, s.pos), phi0=s.vec(nT, s.pos),
             eta2=s.vec(D, s.pos), eta1=s.vec(D, s.pos), eta0=s.pos(), gam=s.vec(D, s.pos))
    for k in ("W", "W0", "V2", "V1", "V0"):
        setattr(m, k, np.array(P[k], dtype=float))
    m.alpha = P["alpha"]
    # an arbitrary state includes the number of steps already taken (any non-negative integer)
    m.num_mcmc_steps = ctx.int("steps_done", 0)
    for k in ("tau", "phi2", "phi1", "phi0", "eta2", "eta1", "gam"):
        setattr(m, k, np.array(H[k], dtype=float))
    m.prec, m.tau0, m.eta0 = H["prec"], H["tau0"], H["eta0"]
    return m, ys, cl, d1, d2, P, H


def _params(m):
    return dict(W=m.W.tolist(), W0=m.W0.tolist(), V2=m.V2.tolist(), V1=m.V1.tolist(), V0=m.V0.tolist(), alpha=m.alpha)


def _hyper(m):
    return dict(prec=m.prec, tau=m.tau.tolist(), tau0=m.tau0, phi2=m.phi2.tolist(), phi1=m.phi1.tolist(), phi0=m.phi0.tolist(),
                eta2=m.eta2.tolist(), eta1=m.eta1.tolist(), eta0=m.eta0)


def _mu(P, cl, d1, d2, D):
    """fitted values recomputed from scratch from the parameters"""
    def g(A, i):
        if i == -1:
            return [0.0] * D if isinstance(A[0], list) else 0.0
        return A[i]
    out = []
    for c, a, b in zip(cl, d1, d2):
        v = P["alpha"] + P["W0"][c] + g(P["V0"], a) + g(P["V0"], b)
        for d in range(D):
            v = v + P["W"][c][d] * (g(P["V1"], a)[d] + g(P["V1"], b)[d]) + P["W"][c][d] * g(P["V2"], a)[d] * g(P["V2"], b)[d]
        out.append(v)
    return out


def _logp(P, Hy, ys, cl, d1, d2, D):
    """the part of the log joint density that depends on the Gaussian blocks"""
    mu = _mu(P, cl, d1, d2, D)
    f = 0.0
    for y, mm in zip(ys, mu):
        f = f - 0.5 * Hy["prec"] * (y - mm) * (y - mm)
    for c in range(len(P["W0"])):
        f = f - 0.5 * Hy["tau0"] * P["W0"][c] * P["W0"][c]
        for d in range(D):
            f = f - 0.5 * Hy["tau"][d] * P["W"][c][d] * P["W"][c][d]
    for t in range(len(P["V0"])):
        f = f - 0.5 * Hy["phi0"][t] * Hy["eta0"] * P["V0"][t] * P["V0"][t]
        for d in range(D):
            f = f - 0.5 * Hy["phi1"][t][d] * Hy["eta1"][d] * P["V1"][t][d] * P["V1"][t][d]
            f = f - 0.5 * Hy["phi2"][t][d] * Hy["eta2"][d] * P["V2"][t][d] * P["V2"][t][d]
    return f


def _copy(P):
    return {k: ([list(r) if isinstance(r, list) else r for r in v] if isinstance(v, list) else v) for k, v in P.items()}


def _quad(f, dim):
    """exact precision matrix and linear term of a quadratic function theta -> f(theta) (second differences)"""
    zero = [0.0] * dim

    def e(i, s=1.0):
        v = list(zero)
        v[i] = s
        return v
    f0 = f(zero)
    fp = [f(e(i)) for i in range(dim)]
    fm = [f(e(i, -1.0)) for i in range(dim)]
    b = [(fp[i] - fm[i]) / 2.0 for i in range(dim)]
    Q = [[None] * dim for _ in range(dim)]
    for i in range(dim):
        Q[i][i] = -(fp[i] + fm[i] - 2.0 * f0)
        for j in range(i):
            v = list(zero)
            v[i] = 1.0
            v[j] = 1.0
            q = -(f(v) - fp[i] - fp[j] + f0)
            Q[i][j] = Q[j][i] = q
    return Q, b


def _check_mu(ctx, m, cl, d1, d2, D, after):
    if not cl:
        return
    ref = _mu(_params(m), cl, d1, d2, D)
    got = m.Mu.tolist()
    ctx.prove(len(got) == len(ref) and all_eq(ctx, got, ref), "running fitted values equal those implied by the current parameters after %s" % after,
              key="stale fitted values after %s" % after)
    if ctx.symbolic:
        # proven equal on this path: continue with the from-scratch terms (substituting equals for equals keeps later
        # obligations near-syntactic instead of making the solver re-derive this identity inside each of them)
        m.Mu = ctx.np.array(ref, dtype=float)


def _scalar_block(ctx, G, start, name, P_pre, Hy, ys, cl, d1, d2, D, n_comp, post_of, with_data):
    """compare the logged np.random.normal(mean, sd) of a scalar block with the oracle"""
    draws = [p for (meth, p) in G.log[start:] if meth == "normal"]
    ctx.prove(len(draws) == n_comp, "%s: one normal draw per component" % name, key="%s: number of draws" % name)
    post = post_of()
    for c in range(min(n_comp, len(draws))):
        mean, sd = draws[c]

        def f(vec, c=c):
            Q = _copy(P_pre)
            for cc in range(c):
                Q[name][cc] = post[cc]  # sequential Gibbs: earlier components already hold their new values
            Q[name][c] = vec[0]
            return _logp(Q, Hy, ys, cl, d1, d2, D)
        Qm, b = _quad(f, 1)
        ctx.prove(ctx.eq(mean * Qm[0][0], b[0]), "%s[%d]: normal mean = conditional mean b/Q" % (name, c), key="%s: conditional mean" % name)
        ctx.prove(ctx.eq(sd * sd * Qm[0][0], 1.0), "%s[%d]: normal sd^2 = 1/Q (conditional variance)" % (name, c), key="%s: conditional variance" % name)
        ctx.prove(sd > 0, "%s[%d]: standard deviation positive" % (name, c))


def _vector_block(ctx, G, start, calls, name, P_pre, Hy, ys, cl, d1, d2, D, n_comp, post, has_data, prior_prec):
    """blocks drawn through sample_mvn_from_precision(Q, mu_part) or, without data, np.random.normal(0, 1/sqrt(prior))"""
    k_mvn, k_nrm = 0, 0
    nrm = [p for (meth, p) in G.log[start:] if meth == "normal"]
    for c in range(n_comp):
        def f(vec, c=c):
            Q = _copy(P_pre)
            for cc in range(c):
                Q[name][cc] = post[cc]
            Q[name][c] = list(vec)
            return _logp(Q, Hy, ys, cl, d1, d2, D)
        Qs, bs = _quad(f, D)
        if has_data(c):
            ctx.prove(k_mvn < len(calls), "%s[%d]: drawn through the multivariate normal sampler" % (name, c), key="%s: missing MVN draw" % name)
            if k_mvn >= len(calls):
                return
            Qc, bc = calls[k_mvn]
            k_mvn += 1
            for i in range(D):
                ctx.prove(ctx.eq(bc[i], bs[i]), "%s[%d]: mu_part = conditional linear term" % (name, c), key="%s: linear term" % name)
                for j in range(D):
                    ctx.prove(ctx.eq(Qc[i][j], Qs[i][j]), "%s[%d]: Q = conditional precision" % (name, c), key="%s: precision matrix" % name)
        else:
            ctx.prove(k_nrm < len(nrm), "%s[%d]: without data drawn from the prior" % (name, c), key="%s: missing prior draw" % name)
            if k_nrm >= len(nrm):
                return
            mean, sd = nrm[k_nrm]
            k_nrm += 1
            sdl = sd.tolist() if hasattr(sd, "tolist") else [sd] * D
            for d in range(D):
                ctx.prove(ctx.eq(sdl[d] * sdl[d] * prior_prec(c, d), 1.0), "%s[%d]: prior draw has the prior precision" % (name, c), key="%s: prior draw" % name)
            ctx.prove(ctx.eq(mean, 0.0) if not hasattr(mean, "tolist") else all_eq(ctx, mean.tolist(), [0.0] * D),
                      "%s[%d]: prior draw has mean 0" % (name, c), key="%s: prior draw" % name)
    ctx.prove(k_mvn == len(calls), "%s: no further MVN draws" % name)


_MVN_COUNT = [0]


class _MvnRecorder:
    def __init__(self, ctx, sc):
        self.ctx, self.sc, self.calls = ctx, sc, []

    def __enter__(self):
        self.saved = self.sc.sample_mvn_from_precision
        ctx, np = self.ctx, self.ctx.np

        def fake(Q, mu=None, mu_part=None, chol_factor=False, rng=None):
            self.calls.append((Q.tolist(), mu_part.tolist()))
            out = []
            for _ in range(len(mu_part.tolist())):
                out.append(ctx.real("mvn%d" % _MVN_COUNT[0]))
                _MVN_COUNT[0] += 1
            return np.array(out, dtype=float)
        self.sc.sample_mvn_from_precision = fake
        return self

    def __exit__(self, *a):
        self.sc.sample_mvn_from_precision = self.saved
        return False


def h_blocks(ctx, cfg):
    np = ctx.np
    sc = ctx.mod("batchie.models.sparse_combo")
    D, nS, nT, N = cfg["D"], cfg["nS"], cfg["nT"], cfg["N"]
    _MVN_COUNT[0] = 0
    with ctx.global_rng() as G:
        m, ys, cl, d1, d2, P0, H0 = _mk_state(ctx, sc, cfg)
        m._reconstruct_Mu(clip=False)
        _check_mu(ctx, m, cl, d1, d2, D, "_reconstruct_Mu")
        Hy = _hyper(m)
        # ---- alpha
        m._alpha_step()
        if N:
            s = 0.0
            for y in ys:
                s = s + y
            ctx.prove(ctx.eq(m.alpha * N, s), "global intercept is held at the mean of the transformed observations", key="alpha")
        else:
            ctx.prove(ctx.eq(m.alpha, P0["alpha"]), "without data the intercept is left alone")
        _check_mu(ctx, m, cl, d1, d2, D, "_alpha_step")
        # ---- W0
        pre, start = _params(m), len(G.log)
        m._W0_step()
        _scalar_block(ctx, G, start, "W0", pre, Hy, ys, cl, d1, d2, D, nS, lambda: m.W0.tolist(), None)
        _check_mu(ctx, m, cl, d1, d2, D, "_W0_step")
        # ---- V0
        pre, start = _params(m), len(G.log)
        m._V0_step()
        _scalar_block(ctx, G, start, "V0", pre, Hy, ys, cl, d1, d2, D, nT, lambda: m.V0.tolist(), None)
        _check_mu(ctx, m, cl, d1, d2, D, "_V0_step")
        # ---- W, V2, V1 (multivariate)
        for name, step, ncomp, has, prior in (
                ("W", m._W_step, nS, lambda c: c in cl, lambda c, d: Hy["tau"][d]),
                ("V2", m._V2_step, nT, lambda t: t in d1 or t in d2, lambda t, d: Hy["phi2"][t][d] * Hy["eta2"][d]),
                ("V1", m._V1_step, nT, lambda t: t in d1 or t in d2, lambda t, d: Hy["phi1"][t][d] * Hy["eta1"][d])):
            pre, start = _params(m), len(G.log)
            with _MvnRecorder(ctx, sc) as rec:
                step()
            _vector_block(ctx, G, start, rec.calls, name, pre, Hy, ys, cl, d1, d2, D, ncomp, getattr(m, name).tolist(), has, prior)
            _check_mu(ctx, m, cl, d1, d2, D, "_%s_step" % name)
        # ---- precision blocks
        P = _params(m)
        C = None
        # tau0
        start = len(G.log)
        m._prec_W0_step()
        (meth, (shape, scale)), = [x for x in G.log[start:]] or [(None, (None, None))]
        ss = 0.0
        for c in range(nS):
            ss = ss + P["W0"][c] * P["W0"][c]
        ctx.prove(meth == "gamma", "tau0: one gamma draw", key="tau0: draw")
        ctx.prove(ctx.eq(shape, m.a0 + 0.5 * nS), "tau0: gamma shape = prior shape + (number of intercepts)/2", key="tau0: shape")
        ctx.prove(ctx.eq(scale * (m.b0 + 0.5 * ss + 1e-3), 1.0), "tau0: gamma rate = prior rate + sum of squares / 2", key="tau0: rate")
        lo = 1.0 / np.sqrt(1.0 + N)
        ctx.prove(ctx.And(m.tau0 >= lo, m.tau0 <= 1e6), "tau0 stays inside [1/sqrt(1+n_obs), 1e6] for any positive draw", key="tau0: bounds")
        # observation precision
        start = len(G.log)
        m._prec_obs_step()
        (meth, (shape, scale)), = [x for x in G.log[start:]] or [(None, (None, None))]
        mu = _mu(P, cl, d1, d2, D)
        sse = 0.0
        for y, mm in zip(ys, mu):
            sse = sse + (y - mm) * (y - mm)
        ctx.prove(meth == "gamma", "noise precision: one gamma draw", key="prec: draw")
        ctx.prove(ctx.eq(shape, m.a0 + 0.5 * N), "noise precision: gamma shape = prior shape + n_obs/2", key="prec: shape")
        rate = m.b0 + 0.5 * sse + (1e-3 if N else 0.0)
        ctx.prove(ctx.eq(scale * rate, 1.0), "noise precision: gamma rate = prior rate + SSE/2 (SSE from the current parameters)", key="prec: rate")
        if N:
            ctx.prove(ctx.And(m.prec >= lo, m.prec <= 1e6), "noise precision stays inside [1/sqrt(1+n_obs), 1e6]", key="prec: bounds")
        # tau (multiplicative gamma process)
        gam_pre = m.gam.tolist()
        start = len(G.log)
        m._prec_W_step()
        gdraws = [p for (meth, p) in G.log[start:] if meth == "gamma"]
        ctx.prove(len(gdraws) == D, "embedding scales: one gamma draw per dimension", key="tau: draws")
        gam_post = m.gam.tolist()
        for d in range(min(D, len(gdraws))):
            shape, scale = gdraws[d]
            g = [gam_post[k] if k < d else gam_pre[k] for k in range(D)]
            acc = 0.0
            for l in range(d, D):
                tl = 1.0
                for k in range(l + 1):
                    if k != d:
                        tl = tl * g[k]
                for c in range(nS):
                    acc = acc + tl * P["W"][c][l] * P["W"][c][l]
            a_prior = 2.0 if d == 0 else 3.0
            ctx.prove(ctx.eq(shape, a_prior + 0.5 * nS * (D - d)), "gam[%d]: gamma shape = prior shape + (entries scaled by it)/2" % d, key="tau: shape")
            ctx.prove(ctx.eq(scale * (1.0 + 0.5 * acc + 1e-3), 1.0), "gam[%d]: gamma rate = 1 + weighted sum of squares / 2" % d, key="tau: rate")
        tau = m.tau.tolist()
        for d in range(D):
            ctx.prove(ctx.And(tau[d] >= lo, tau[d] <= 1e6), "embedding scales stay inside [1/sqrt(1+n_obs), 1e6]", key="tau: bounds")
    return [cl, d1, d2]


def _check_tau_block(ctx, G, m, P, nS, D, N, np):
    gam_pre = m.gam.tolist()
    start = len(G.log)
    m._prec_W_step()
    gdraws = [p for (meth, p) in G.log[start:] if meth == "gamma"]
    ctx.prove(len(gdraws) == D, "embedding scales: one gamma draw per dimension", key="tau: draws")
    gam_post = m.gam.tolist()
    for d in range(min(D, len(gdraws))):
        shape, scale = gdraws[d]
        g = [gam_post[k] if k < d else gam_pre[k] for k in range(D)]  # earlier factors already hold their new values
        acc = 0.0
        for l in range(d, D):
            tl = 1.0
            for k in range(l + 1):
                if k != d:
                    tl = tl * g[k]
            for c in range(nS):
                acc = acc + tl * P["W"][c][l] * P["W"][c][l]
        a_prior = 2.0 if d == 0 else 3.0
        ctx.prove(ctx.eq(shape, a_prior + 0.5 * nS * (D - d)), "gam[%d]: gamma shape = prior shape + (entries scaled by it)/2" % d, key="tau: shape")
        ctx.prove(ctx.eq(scale * (1.0 + 0.5 * acc + 1e-3), 1.0), "gam[%d]: gamma rate = 1 + weighted sum of squares / 2" % d, key="tau: rate")
    lo = 1.0 / np.sqrt(1.0 + N)
    tau = m.tau.tolist()
    run = 1.0
    for d in range(D):
        run = run * gam_post[d]
        ctx.prove(ctx.And(tau[d] >= lo, tau[d] <= 1e6), "embedding scales stay inside [1/sqrt(1+n_obs), 1e6]", key="tau: bounds")
        ctx.prove(ctx.Or(run < lo, run > 1e6, ctx.eq(tau[d], run)), "embedding scale d is the running product of the factors (unless clipped)", key="tau: product")


def h_taublock(ctx, cfg):
    sc = ctx.mod("batchie.models.sparse_combo")
    with ctx.global_rng() as G:
        m, ys, cl, d1, d2, P0, H0 = _mk_state(ctx, sc, cfg)
        _check_tau_block(ctx, G, m, _params(m), cfg["nS"], cfg["D"], 0, ctx.np)
    return cfg["D"]


def h_sweep(ctx, cfg):
    sc = ctx.mod("batchie.models.sparse_combo")
    if cfg.get("N"):
        return h_step_entry(ctx, cfg)
    with ctx.global_rng() as G:
        m, ys, cl, d1, d2, P0, H0 = _mk_state(ctx, sc, dict(cfg, N=0))
        order = []
        names = ["_reconstruct_Mu", "_alpha_step", "_W0_step", "_V0_step", "_W_step", "_V2_step", "_V1_step", "_prec_W0_step",
                 "_prec_V0_step", "_prec_obs_step", "_prec_V2_step", "_prec_V1_step", "_prec_W_step"]
        for n in names:
            def wrap(*a, _n=n, _f=getattr(m, n), **k):
                order.append(_n)
                return _f(*a, **k)
            setattr(m, n, wrap)
        before = m.num_mcmc_steps
        m.mcmc_step()
    ctx.prove(order == names, "one step visits every block exactly once in the documented order", key="sweep order")
    ctx.prove(m.num_mcmc_steps == before + 1, "step counter advances by one")
    return order


def h_step_entry(ctx, cfg):
    """a whole mcmc_step from an arbitrary state WITH data: when the first block starts, the running fitted values are those
    implied by the parameters (whatever the step does before its first block - this closes the induction of which the
    per-block configurations prove the step: every block keeps them equal)"""
    sc = ctx.mod("batchie.models.sparse_combo")
    D = cfg["D"]
    with ctx.global_rng() as G:
        m, ys, cl, d1, d2, P0, H0 = _mk_state(ctx, sc, cfg)
        # the state reached so far may carry fitted values of an earlier parameter vector or not: either way
        m.Mu = ctx.np.array(_mu(_params(m), cl, d1, d2, D), dtype=float)
        seen = []
        first = m._alpha_step

        def entry(*a, **k):
            if not seen:
                seen.append((m.Mu.tolist(), _params(m)))
            return first(*a, **k)
        m._alpha_step = entry
        m.mcmc_step()
    ctx.prove(len(seen) == 1, "the step reaches its first block", key="sweep order")
    if seen and cl:
        got, pars = seen[0]
        ref = _mu(pars, cl, d1, d2, D)
        ctx.prove(len(got) == len(ref) and all_eq(ctx, got, ref),
                  "when the first block of a step starts, the running fitted values equal those implied by the current parameters",
                  key="stale fitted values at the start of a step")
    return len(cl)


def h_mvn(ctx, cfg):
    """under the LAPACK contracts the draw r satisfies Q (r - x) = b with L^T x = z: mean Q^-1 b, covariance Q^-1"""
    np = ctx.np
    mvn = ctx.mod("batchie.fast_mvn")
    D = cfg["D"]
    if ctx.mode == "real":
        import numpy
        A = numpy.array([[ctx.real("p%d" % (i * D + j + 1)) for j in range(D)] for i in range(D)])
        Q = A @ A.T + numpy.eye(D)
        b = numpy.array([ctx.real("p%d" % (50 + i)) for i in range(D)])
        z = numpy.array([ctx.real("z%d" % i) for i in range(D)])

        class R:  # numpy's contract: normal(loc, scale, size) = loc + scale * (standard normal draws)
            def normal(self, loc=0.0, scale=1.0, size=None):
                return loc + scale * z.copy()
        r = mvn.sample_mvn_from_precision(Q, mu_part=b, rng=R())
        L = numpy.linalg.cholesky(Q)
        x = numpy.linalg.solve(L.T, z)
        ctx.prove(all_eq(ctx, (Q @ (r - x)).tolist(), b.tolist()), "MVN draw: Q (r - x) = mu_part with L^T x = z (mean Q^-1 b, covariance Q^-1)", key="mvn contract")
        return D
    q = [[None] * D for _ in range(D)]
    k = 0
    for i in range(D):
        for j in range(i + 1):
            k += 1
            q[i][j] = q[j][i] = ctx.real("p%d" % k)
    b = [ctx.real("p%d" % (50 + i)) for i in range(D)]
    z = [ctx.real("z%d" % i) for i in range(D)]

    class R:  # numpy's contract: normal(loc, scale, size) = loc + scale * (standard normal draws)
        def normal(self, loc=0.0, scale=1.0, size=None):
            return loc + scale * np.array(z, dtype=float)
    eng = ctx.eng
    n0 = eng.nfresh
    r = mvn.sample_mvn_from_precision(np.array(q, dtype=float), mu_part=np.array(b, dtype=float), rng=R()).tolist()
    # the Cholesky factor the model introduced: fresh symbols chol!k in row-major lower-triangular order
    Ls = [v for n, v in eng.symbols.items() if n.startswith("chol!")]
    L = [[0.0] * D for _ in range(D)]
    it = iter(Ls)
    from ..engine import SymReal
    if len(Ls) != D * (D + 1) // 2:
        # the code did not factorise Q (or not once): the reference factor is introduced here under the LAPACK contract
        for i in range(D):
            for j in range(i + 1):
                L[i][j] = ctx.eng.fresh_real("Lref")
        for i in range(D):
            ctx.assume(L[i][i] > 0)
            for j in range(i + 1):
                acc = 0.0
                for m in range(j + 1):
                    acc = acc + L[i][m] * L[j][m]
                ctx.assume(acc == q[i][j])
    else:
        for i in range(D):
            for j in range(i + 1):
                L[i][j] = SymReal(next(it))
    # x solves L^T x = z ; then Q (r - x) = b
    x = [ctx.eng.fresh_real("xsol") for _ in range(D)]
    for i in range(D):
        s = 0.0
        for j in range(i, D):
            s = s + L[j][i] * x[j]
        ctx.assume(s == z[i])
    for i in range(D):
        s = 0.0
        for j in range(D):
            s = s + q[i][j] * (r[j] - x[j])
        ctx.prove(s == b[i], "MVN draw: Q (r - x) = mu_part with L^T x = z (mean Q^-1 b, covariance Q^-1)", key="mvn contract", hard=True)
    return D


class _Duck:
    def __init__(self, np, cl, d1, d2):
        self.sample_ids = np.array(cl, dtype=int)
        self.treatment_ids = np.array([[a, b] for a, b in zip(d1, d2)], dtype=int).reshape(len(cl), 2)
        self.treatment_arity = 2
        self.size = len(cl)


def h_export(ctx, cfg):
    """the posterior sample exported after a step reproduces the sampler's fitted values and noise precision"""
    np = ctx.np
    sc = ctx.mod("batchie.models.sparse_combo")
    D = cfg["D"]
    with ctx.global_rng() as G:
        m, ys, cl, d1, d2, P0, H0 = _mk_state(ctx, sc, cfg)
        m._reconstruct_Mu(clip=False)

        class ES:
            n_unique_treatments, n_unique_samples = cfg["nT"], cfg["nS"]
        model = sc.SparseDrugCombo(experiment_space=ES(), n_embedding_dimensions=D)
        model.wrapped_model = m
        th = model.get_model_state()
    duck = _Duck(np, cl, d1, d2)
    ctx.prove(all_eq(ctx, th.predict_conditional_mean(duck).tolist(), m.Mu.tolist()),
              "exported sample predicts the sampler's fitted values on the training experiments", key="export: fitted values")
    var = th.predict_conditional_variance(duck).tolist()
    for v in var:
        ctx.prove(ctx.eq(v * m.prec, 1.0), "exported sample's variance is the reciprocal noise precision", key="export: precision")
    snap = _params(m)
    th.W[0, 0] = 12345.0
    ctx.prove(all_eq(ctx, _params(m)["W"], snap["W"]), "exported sample holds copies, not views, of the sampler state", key="export: aliasing")
    return 1


def run(ctx, cfg):
    return {"blocks": h_blocks, "sweep": h_sweep, "mvn": h_mvn, "export": h_export, "taublock": h_taublock}[cfg["h"]](ctx, cfg)
