"""C15 - combination unranking is a bijection: sampled triples are distinct and complete."""
import itertools
import math

PROPERTY = "C15"
LEVEL = "model_checking"
FUNCTIONS = [
    "batchie.scoring.gaussian_dbal.generate_combination_at_sorted_index (symbolic index; n, k enumerated)",
    "batchie.scoring.gaussian_dbal.get_combination_at_sorted_index",
    "batchie.scoring.gaussian_dbal.dbal_fast_gauss_scoring_vectorized (triple selection part)",
]
BOUNDS = {
    "quick": "loop-invariant lemmas: n and index unbounded, k=1..4; enumeration: every n<=10, k<=4 (and k=0, k>n) and n=66, k=2: index symbolic over [0,C(n,k)); scoring use: n_thetas<=5 with every draw of rng.choice, and n_thetas 12/30/150 (default budget) and 40 (budget 20000 > C(40,3)) with an adversarial generator",
    "thorough": "every n<=26 with k<=4, n<=40 with k=3, n<=80 with k<=2; scoring use: n_thetas<=5 with every draw, adversarial generator up to n_thetas=600; lemmas as in quick",
}
ASSUMPTIONS = [
    "rng.choice(N, size, replace=False) returns an arbitrary sequence of distinct elements of range(N) (numpy's contract; every such sequence is explored)",
    "Python int arithmetic = mathematical integers (z3 Int), floor division and modulo with Python semantics",
]
OUTSIDE = ["k > 4", "for n above the enumeration bound the claim rests on the loop-invariant lemmas (unbounded n, k<=4) plus two classical facts listed under trusted"]
RULE = "one path per (n,k) and per index interval the code distinguishes; the index stays symbolic on the path."
BUDGET_S = {"quick": 600, "thorough": 3000}
TASK_QUOTA = 200


def configs(tier, seed):
    N = 10 if tier == "quick" else 26
    out = []
    for n in range(0, N + 1):
        for k in range(0, 5):
            if math.comb(n, k) == 0:
                continue
            out.append(dict(name="unrank n=%d k=%d" % (n, k), h="unrank", n=n, k=k))
    if tier != "quick":
        for n in range(N + 1, 41):
            out.append(dict(name="unrank n=%d k=3" % n, h="unrank", n=n, k=3))
        for n in list(range(N + 1, 81)):
            for k in (1, 2):
                out.append(dict(name="unrank n=%d k=%d" % (n, k), h="unrank", n=n, k=k))
    else:
        out.append(dict(name="unrank n=66 k=2", h="unrank", n=66, k=2))
    for nt, mc in ((3, 5), (4, 2), (4, 10), (5, 2)) + (((5, 3),) if tier != "quick" else ()):
        out.append(dict(name="triples nt=%d max=%d" % (nt, mc), h="triples", nt=nt, max_combos=mc))
    out.append(dict(name="scorer reused: 7 then 6 then 8 samples, budget 10", h="scorer_reuse", nts=[7, 6, 8], budget=10))
    # sparse regimes (triple space far larger than the budget, production sizes included) with an adversarial generator:
    # it returns the worst sequence its contract allows (all-equal indices whenever it is asked to draw with replacement)
    # (40, 20000): a budget above the default that covers all C(40,3) = 9880 triples: every one of them must be used
    # (2000, 600): C(2000,3) = 1.3e9 - intermediate products of an unranking done in 32-bit integers overflow from n = 1627 on
    for nt, mc in ((12, 2), (30, 7), (150, 5000), (40, 20000), (2000, 600)) + (((300, 5000), (600, 5000), (60, 40000), (45, 9000)) if tier != "quick" else ()):
        out.append(dict(name="triples nt=%d max=%d adversarial generator" % (nt, mc), h="triples", nt=nt, max_combos=mc, adversarial=True))
    return out


def fixtures(cfg):
    if cfg["h"] == "unrank":
        c = math.comb(cfg["n"], cfg["k"])
        return [dict(index=0), dict(index=c - 1), dict(index=c // 2), dict(index=max(0, c - 2))]
    return [dict()]


def _reference(n, k):
    """the docstring's definition, literally: all k-subsets as descending tuples, sorted ascending"""
    return sorted(tuple(sorted(c, reverse=True)) for c in itertools.combinations(range(n), k))


def h_unrank(ctx, cfg):
    gd = ctx.mod("batchie.scoring.gaussian_dbal")
    n, k = cfg["n"], cfg["k"]
    ref = _reference(n, k)
    C = len(ref)
    index = ctx.int("index", 0, C - 1)
    t = gd.get_combination_at_sorted_index(index, n, k)
    t = tuple(int(x) for x in t)
    ctx.observe("tuple", list(t))
    ctx.prove(len(t) == k, "tuple has k elements")
    ctx.prove(all(t[i] > t[i + 1] for i in range(k - 1)) and all(0 <= x < n for x in t),
              "tuple is strictly descending within [0,n)")
    ctx.prove(t in ref, "tuple is a k-subset of range(n)")
    if t in ref:
        # the index (still symbolic on this path) can only be the rank of the tuple: bijection with ascending order
        ctx.prove(index == ref.index(t), "index i yields exactly the i-th tuple of the sorted list (bijection, ascending order)")
    return list(t)


def _arr(x):
    """numpy's Generator.choice returns an array: so does the stand-in (real numpy is fine in every mode: plain integers)"""
    import numpy
    return numpy.array(x, dtype=numpy.int64)


class _Adversarial:
    """a generator that honours numpy's contract in the least helpful way: without replacement it returns distinct
    (spread-out) elements, with replacement it returns the same element every time"""

    def choice(self, a, size=None, replace=True, p=None, axis=0, shuffle=True):
        n = int(a)
        k = int(size)
        if replace:
            return _arr([n // 2] * k)
        if k > n:
            raise ValueError("Cannot take a larger sample than population when replace is False")
        step = max(1, n // k)
        return _arr([(i * step) % n for i in range(k)] if step * (k - 1) < n else list(range(k)))


class _RecordingMatrix:
    """a dense distance matrix that notes which (row, column) entries are looked up with index arrays: the triples the
    scoring function really uses are observed where they are consumed, not inside a helper it may or may not call"""

    def __init__(self, a):
        self.a = a
        self.lookups = []

    @property
    def shape(self):
        return self.a.shape

    def __getitem__(self, key):
        if isinstance(key, tuple) and len(key) == 2 and all(hasattr(k, "tolist") and getattr(k, "ndim", 0) == 1 for k in key):
            self.lookups.append(([int(x) for x in key[0].tolist()], [int(x) for x in key[1].tolist()]))
        return self.a[key]

    def __getattr__(self, name):
        return getattr(self.a, name)

    def triples(self, ctx):
        """the triples consumed: one per position of the index arrays; None if the lookups do not have the expected form
        (then nothing can be said: inconclusive, never a finding)"""
        if not self.lookups or len(self.lookups) % 3:
            ctx.inconclusive("the distance matrix was not read with (groups of) three pairs of index arrays: the triples used cannot be observed")
        out = []
        for g in range(0, len(self.lookups), 3):  # one group per pass over the triples
            group = self.lookups[g:g + 3]
            if len({len(a) for a, b in group} | {len(b) for a, b in group}) != 1:
                ctx.inconclusive("index arrays of unequal length: the triples used cannot be observed")
            for c in range(len(group[0][0])):
                ids = set()
                for a, b in group:
                    ids.add(a[c])
                    ids.add(b[c])
                out.append(tuple(sorted(ids, reverse=True)))
        return out


def h_triples(ctx, cfg):
    """triples drawn for scoring are pairwise distinct, in range, and all of them when the budget covers them"""
    np = ctx.np
    gd = ctx.mod("batchie.scoring.gaussian_dbal")
    nt, mc = cfg["nt"], cfg["max_combos"]
    preds = np.array([[[float(t + 1)] for t in range(nt)]], dtype=float)
    var = np.array([[[1.0] for t in range(nt)]], dtype=float)
    D = _RecordingMatrix(np.array([[0.0 if i == j else 1.0 for j in range(nt)] for i in range(nt)], dtype=float))
    gd.dbal_fast_gauss_scoring_vectorized(preds, var, D, _Adversarial() if cfg.get("adversarial") else ctx.rng("R"), max_combos=mc)
    seen = D.triples(ctx)
    C = math.comb(nt, 3)
    ctx.prove(len(seen) == min(C, mc), "number of triples is min(C(n,3), budget)")
    ctx.prove(len(set(seen)) == len(seen), "triples are pairwise distinct")
    ctx.prove(all(len(t) == 3 and nt > t[0] > t[1] > t[2] >= 0 for t in seen), "triples lie within range")
    if mc >= C:
        ctx.prove(set(seen) == set(_reference(nt, 3)), "all triples are used when the budget covers them")
    return len(seen)


def h_scorer_reuse(ctx, cfg):
    """one scorer object scores twice, with different numbers of posterior samples: the triples of each call are pairwise
    distinct triples of that call's samples, min(C(n,3), budget) of them"""
    from .c05 import _views, _theta_class
    np = ctx.np
    gd = ctx.mod("batchie.scoring.gaussian_dbal")
    core = ctx.mod("batchie.core")
    _Theta = _theta_class(core)
    _screen, _names, _pv = _views(ctx, [1, 2])
    dc = ctx.mod("batchie.distance_calculation")
    budget = cfg["budget"]
    scorer = gd.GaussianDBALScorer(max_chunk=5, max_triples=budget)
    out = []
    for nt in cfg["nts"]:
        holder = core.ThetaHolder(n_thetas=nt)
        for t in range(nt):
            holder.add_theta(_Theta(np, [0.1 * (t + 1), 0.2, 0.3 + 0.01 * t], [1.0 + 0.5 * t] * 3))
        dm = dc.ChunkedDistanceMatrix(nt)
        for i in range(nt):
            for j in range(i):
                dm.add_value(i, j, 0.3 + 0.1 * i + 0.05 * j)
        rec = _RecordingMatrix(dm.to_dense())

        class _DM:  # what the scorer needs of a distance matrix: its dense form
            def to_dense(self):
                return rec

            def is_complete(self):
                return True
        plates = {4: _pv[0], 9: _pv[1]}
        scorer.score(plates=plates, distance_matrix=_DM(), samples=holder, rng=_Adversarial(), progress_bar=False)
        seen = rec.triples(ctx)
        want = min(math.comb(nt, 3), budget)
        ctx.prove(len(seen) == want, "number of triples is min(C(n,3), budget) in every call of a reused scorer", key="reused scorer: number of triples")
        ctx.prove(len(set(seen)) == len(seen), "triples are pairwise distinct in every call of a reused scorer", key="reused scorer: triples not distinct")
        ctx.prove(all(len(t) == 3 and nt > t[0] > t[1] > t[2] >= 0 for t in seen), "triples lie within the range of the call's own samples",
                  key="reused scorer: triples out of range")
        out.append(len(seen))
    return out


def h_lemma_replay(ctx, cfg):
    """replay of a failed-lemma witness: the concrete call must disagree with the combinatorial number system"""
    from .c15_lemmas import _reference_unrank
    gd = ctx.mod("batchie.scoring.gaussian_dbal")
    index, n, k = ctx.int("index", 0), ctx.int("n", 0), ctx.int("k", 1)
    ctx.prove(tuple(int(x) for x in gd.get_combination_at_sorted_index(index, n, k)) == _reference_unrank(index, n, k),
              "combination unranking differs from the combinatorial number system")
    return 1


def extra(tier, seed, deadline):
    """C15-B: unbounded-n loop-invariant lemmas (see c15_lemmas.py)"""
    from . import c15_lemmas

    def real_fn():
        import importlib
        from .. import loader as _ld
        if _ld.CURRENT_PATCHES:  # self-test: the mutant exists only in memory
            return _ld.Loader(patches=_ld.CURRENT_PATCHES).load("batchie.scoring.gaussian_dbal").get_combination_at_sorted_index
        return importlib.import_module("batchie.scoring.gaussian_dbal").get_combination_at_sorted_index
    rep = c15_lemmas.run(tier, seed, deadline, real_fn)
    ch = None
    from .. import loader as _ld2
    if tier == "thorough" and not _ld2.CURRENT_PATCHES:
        from ..crosshair_x import run_contracts
        ch = run_contracts(CROSSHAIR_CONTRACTS)
        for cx in ch["counterexamples"]:
            rep.inconclusive.append("CrossHair cross-check disagrees (counterexample on the real function): %s" % cx)
    spot = _spot_checks(real_fn(), tier, seed, rep)
    d = _extra_dict(rep)
    d["coverage"]["large_n_spot_checks"] = spot
    if ch is not None:
        d["coverage"]["crosshair_cross_check"] = {k: v for k, v in ch.items() if k != "raw"}
    return d


CROSSHAIR_CONTRACTS = '''
from batchie.scoring.gaussian_dbal import get_combination_at_sorted_index


def _succ_ok_k3(index: int) -> bool:
    """
    pre: 0 <= index < 83
    post: _
    """
    n, k = 9, 3
    a = get_combination_at_sorted_index(index, n, k)
    b = get_combination_at_sorted_index(index + 1, n, k)
    ok = all(a[i] > a[i + 1] for i in range(k - 1)) and 0 <= a[-1] and a[0] < n
    return ok and a < b


def _succ_ok_k2(index: int) -> bool:
    """
    pre: 0 <= index < 65
    post: _
    """
    n, k = 12, 2
    a = get_combination_at_sorted_index(index, n, k)
    b = get_combination_at_sorted_index(index + 1, n, k)
    return a[0] > a[1] >= 0 and a[0] < n and a < b
'''


def _spot_checks(f, tier, seed, rep):
    """concrete calls for n far above the enumeration bound, at the indices where the incremental arithmetic changes
    regime (block starts C(c,k) and their neighbours, first and last indices) plus seeded random indices; compared with
    an independent greedy unranking.  Not a solver verdict: a complement to the unbounded lemmas for the case that the
    function's shape is no longer the one the lemmas were cut from."""
    import math
    import random
    from .c15_lemmas import _reference_unrank
    rnd = random.Random(seed + 15)
    ns = (65, 66, 130, 700) if tier == "quick" else (65, 66, 130, 700, 3000)
    calls, t0 = 0, __import__("time").time()
    for n in ns:
        for k in (2, 3):
            C = math.comb(n, k)
            idx = set(range(0, min(C, 40))) | set(range(max(0, C - 5), C))
            for c in range(k, n + 1):
                b = math.comb(c, k)
                idx.update(x for x in (b - 1, b, b + 1, b + c // 7) if 0 <= x < C)
            idx.update(rnd.randrange(C) for _ in range(150))
            for i in sorted(idx):
                calls += 1
                try:
                    got = tuple(int(x) for x in f(i, n, k))
                except Exception as ex:
                    got = "raises %s" % type(ex).__name__
                want = _reference_unrank(i, n, k)
                if got != want:
                    rep.violations.append(dict(label="combination unranking differs from the combinatorial number system",
                                               key="unranking wrong for large n", model=dict(index=i, n=n, k=k),
                                               detail="f(%d, %d, %d) = %s, expected %s" % (i, n, k, got, want),
                                               cfg=dict(name="spot", h="lemma_replay"), confirmed=True, notes=[]))
                    return dict(calls=calls, n=list(ns), failed=dict(index=i, n=n, k=k))
    return dict(calls=calls, n=list(ns), failed=None, wall_s=round(__import__("time").time() - t0, 1))


def _extra_dict(rep):
    return dict(stats=rep.stats, labels=rep.labels, samples=rep.samples, violations=rep.violations, inconclusive=rep.inconclusive,
                evaluations=rep.stats["obligations"], distinct_nontrivial=rep.stats["discharged"],
                coverage=dict(unbounded_lemmas=dict(
                    scope="generate_combination_at_sorted_index, statements cut from the current source with ast; n and index unbounded symbolic integers, k = 1..4",
                    obligations=rep.stats["obligations"], discharged=rep.stats["discharged"], solver_s=round(rep.stats["solver_s"], 2),
                    trusted=["j! divides every product of j consecutive integers (witness integers c with j! c = P(x,j))",
                             "uniqueness and order preservation of the combinatorial number system representation"])))


def run(ctx, cfg):
    return {"unrank": h_unrank, "triples": h_triples, "scorer_reuse": h_scorer_reuse, "lemma_replay": h_lemma_replay}[cfg["h"]](ctx, cfg)
