"""C07 - pairwise-distance chunks partition the work and assemble to the same matrix."""
import itertools

PROPERTY = "C07"
LEVEL = "model_checking"
FUNCTIONS = [
    "batchie.distance_calculation.get_lower_triangular_indices_chunk (symbolic n, chunk_index, n_chunks)",
    "batchie.distance_calculation.lower_triangular_indices / consume / get_number_of_lower_triangular_indices",
    "batchie.distance_calculation.ChunkedDistanceMatrix.__init__/add_value/is_complete/to_dense/save/load/combine/concat/_expand_storage",
    "batchie.distance_calculation.calculate_pairwise_distance_matrix_on_predictions",
    "batchie.distance.mse.MSEDistance.distance",
    "batchie.cli.calculate_distance_matrix.main (through get_parser / get_args with sys.argv set; class lookup by name answered from the loaded modules)",
]
BOUNDS = {
    "quick": "chunk arithmetic: all n>=0, n_chunks>=1, chunk_index (unbounded integers; islice/generator replaced by an exact abstract-sequence model); "
             "generator pipeline: n<=5, n_chunks<=12; assembly: n_thetas<=4, n_chunks<=4, chunk-file sequences of length<=n_chunks+1 (with repetition); metric: vectors of length<=3; assembly also for n_thetas 0 and 1; metric additionally on concrete fixtures of nearly identical predictions at five scales (real code, relative accuracy 1e-6 against the exact rational value)",
    "thorough": "chunk arithmetic: unbounded; generator pipeline: n<=10, n_chunks<=50; assembly: n_thetas<=5, n_chunks<=5 (sequences <= n_chunks+1), n_thetas 6 (n_chunks<=6), 7 (n_chunks<=5) and 8 (n_chunks=3), n_chunks=11>pairs, and 20 / 66 samples in one fixed chunk order each; metric: vectors <=4",
}
ASSUMPTIONS = [
    "itertools.islice(it, k) yields the next min(k, remaining) items and raises ValueError for k<0 (abstract-sequence model used only for the unbounded arithmetic lemma; the bounded pipeline runs the real generator/islice/deque)",
    "h5py is a faithful typed store (symh5 model)",
    "expit is an uninterpreted function (metric properties hold for any function in its place); float arithmetic treated as real arithmetic",
]
OUTSIDE = ["n_thetas above the bound for the assembly part", "IEEE rounding of the metric beyond the concrete fixtures (the solver paths treat floats as reals)", "the CLI wrapper's argument parsing"]
RULE = "chunk counts, chunk indices and the order/repetition of chunk files at combination time are solver-chosen (forked); distance values are symbolic reals."
BUDGET_S = {"quick": 600, "thorough": 3000}


def configs(tier, seed):
    q = tier == "quick"
    out = [dict(name="arith", h="arith")]
    out.append(dict(name="arith-pair", h="arith_pair"))
    for n in range(0, 6 if q else 11):
        out.append(dict(name="pipeline n=%d" % n, h="pipeline", n=n, kmax=12 if q else 50))
    # no pairs at all (zero or one posterior sample): the chunks still assemble to a complete 0x0 / 1x1 zero matrix
    for nt in (0, 1):
        for k in (1, 2, 3):
            out.append(dict(name="assemble nt=%d k=%d (no pairs)" % (nt, k), h="assemble", nt=nt, k=k, extra=1, plen=2))
    for nt in ((2, 3, 4) if q else (2, 3, 4, 5)):
        for k in range(1, (4 if q else 5) + 1):
            if k > nt * (nt - 1) // 2 + 1:
                continue
            out.append(dict(name="assemble nt=%d k=%d" % (nt, k), h="assemble", nt=nt, k=k, extra=1, plen=2))
    if not q:
        for nt, k in ((6, 1), (6, 2), (6, 3), (6, 4), (6, 5), (7, 2), (7, 3), (7, 4), (7, 5), (8, 3), (6, 6)):
            out.append(dict(name="assemble nt=%d k=%d" % (nt, k), h="assemble", nt=nt, k=k, extra=1, plen=2))
        out.append(dict(name="assemble nt=5 k=11 (more chunks than pairs)", h="assemble", nt=5, k=11, extra=0, plen=1, fixed_order="rev"))
        out.append(dict(name="assemble nt=20 k=7 (one rotated order with a repeat)", h="assemble", nt=20, k=7, extra=0, plen=1, fixed_order="rot"))
        out.append(dict(name="assemble nt=66 k=5 (reversed order)", h="assemble", nt=66, k=5, extra=0, plen=1, fixed_order="rev"))
        out.append(dict(name="assemble nt=4 k=7 (more chunks than pairs)", h="assemble", nt=4, k=7, extra=0, plen=2, fixed_order="rot"))
    out.append(dict(name="incomplete nt=3", h="incomplete", nt=3, k=3))
    out.append(dict(name="incomplete nt=4", h="incomplete", nt=4, k=4 if q else 6))
    for sig in (True, False):
        out.append(dict(name="metric sigmoid=%s" % sig, h="metric", sigmoid=sig, n=3 if q else 4))
    out.append(dict(name="bounds-guards", h="guards"))
    out.append(dict(name="300 samples in 200 chunks (indices past 255 in small chunks)", h="highids", nt=300, k=200, chunks=[3, 150, 199]))
    out.append(dict(name="cli nt=3", h="cli", nt=3, kmax=4))
    if not q:
        out.append(dict(name="cli nt=4", h="cli", nt=4, kmax=7))
    return out


def fixtures(cfg):
    if cfg["h"] == "assemble":
        vals = {"order%d" % i: (i * 2 + 1) % cfg["k"] for i in range(cfg["k"] + cfg["extra"])}
        for i in range(cfg["nt"]):
            for e in range(cfg["plen"]):
                vals["p%d_%d" % (i, e)] = 0.1 + 0.13 * i + 0.31 * e
        return [vals]
    if cfg["h"] == "pipeline":
        return [dict(k=3), dict(k=1), dict(k=cfg["kmax"])]
    if cfg["h"] == "metric":
        out = [{"a0": 0.5, "a1": -1.0, "a2": 2.0, "b0": 0.25, "b1": 0.0, "b2": -3.0, "a3": 1.0, "b3": 1.0}]
        # predictions that are distinct but nearly identical (consecutive samples of a slowly mixing chain), at several scales:
        # a formula that is an identity over the reals can still lose every digit here
        for scale, eps in ((1.0, 1e-9), (0.7, 3e-10), (123.456, 1e-7), (1e-3, 1e-13), (0.9, 1e-12)):
            base = [scale * x for x in (1.0, 0.37, 0.81, 0.59)]
            out.append(dict({"a%d" % i: base[i] for i in range(4)}, **{"b%d" % i: base[i] + eps * (1, -1, 2, -3)[i] for i in range(4)}))
        return out
    if cfg["h"] == "arith":
        return [dict(n=10, k=3, c=1), dict(n=0, k=2, c=1), dict(n=5, k=12, c=11), dict(n=10, k=10, c=9)]
    if cfg["h"] == "cli":
        return [dict(k=2, order0=1, p0_0=0.1, p1_0=-0.3, p2_0=0.7, p3_0=0.2), dict(k=4, order0=2, p0_0=0.5, p1_0=0.5, p2_0=-0.1, p3_0=0.0)]
    if cfg["h"] == "highids":
        return [dict(chunk=1, p0_0=0.4, p1_0=-0.2, p2_0=0.9)]
    if cfg["h"] == "arith_pair":
        return [dict(n=10, k=3, c=1), dict(n=4, k=9, c=7)]
    return [dict()]


# ------------------------------------------------------------------ abstract sequence model
class _AbsSeq:
    """lower_triangular_indices(n) as an opaque sequence of N = n(n-1)/2 items with a cursor"""

    def __init__(self, N):
        self.N = N
        self.pos = 0


class _Window:
    def __init__(self, start, end):
        self.start, self.end = start, end


class _AbsSlice:
    def __init__(self, ctx, seq, stop):
        if stop is not None and ctx.is_true(stop < 0):
            raise ValueError("Stop argument for islice() must be None or an integer: 0 <= x <= sys.maxsize.")
        self.ctx, self.seq, self.stop = ctx, seq, stop

    def __iter__(self):
        seq = self.seq
        start = seq.pos
        if self.stop is None:
            end = seq.N
        else:
            t = start + self.stop
            end = self.ctx.ite(t < seq.N, t, seq.N)
        seq.pos = end
        return iter([_Window(start, end)])


def _chunk_window(ctx, dc, n, c, k, N):
    """run the real function on the abstract sequence; returns (start, end) of the yielded window"""
    r = dc.get_lower_triangular_indices_chunk(n, c, k)
    assert len(r) == 1 and isinstance(r[0], _Window)
    return r[0].start, r[0].end


def _install_abstract(ctx, dc, n, N):
    dc.lower_triangular_indices = lambda nn: _AbsSeq(N)
    dc.islice = lambda it, stop: _AbsSlice(ctx, it, stop)


def _restore(dc, saved):
    dc.lower_triangular_indices, dc.islice = saved


def h_arith(ctx, cfg):
    """window of one chunk: inside [0,N], size floor(N/k) or floor(N/k)+1, first starts at 0, last ends at N"""
    dc = ctx.mod("batchie.distance_calculation")
    n = ctx.int("n", 0)
    k = ctx.int("k", 1)
    c = ctx.int("c", 0)
    ctx.assume(c < k, "chunk_index < n_chunks (the function asserts it)")
    if ctx.symbolic:
        N = ctx.int("N", 0)
        ctx.assume(N * 2 == n * (n - 1), "N = n(n-1)/2")
        ctx.prove(dc.get_number_of_lower_triangular_indices(n) == N, "number of pairs is n(n-1)/2")
        saved = (dc.lower_triangular_indices, dc.islice)
        _install_abstract(ctx, dc, n, N)
        try:
            s, e = _chunk_window(ctx, dc, n, c, k, N)
        finally:
            _restore(dc, saved)
        size = e - s
        base = N // k
        ctx.prove(ctx.And(s >= 0, s <= e, e <= N), "window lies inside [0,N]")
        ctx.prove(ctx.Or(size == base, size == base + 1), "chunk size is floor(N/k) or floor(N/k)+1")
        ctx.prove(ctx.Or(c != 0, s == 0), "first chunk starts at 0")
        ctx.prove(ctx.Or(c != k - 1, e == N), "last chunk ends at N")
        return 1
    # replay on the real generator pipeline
    full = list(dc.lower_triangular_indices(n))
    N = len(full)
    got = dc.get_lower_triangular_indices_chunk(n, c, k)
    base, rem = divmod(N, k)
    s = c * base + min(c, rem)
    e = s + base + (1 if c < rem else 0)
    ctx.observe("chunk", [list(x) for x in got])
    ctx.prove(got == full[s:e], "window lies inside [0,N]")
    return 1


def h_arith_pair(ctx, cfg):
    """consecutive chunks abut and sizes never increase: with h_arith this is a partition"""
    dc = ctx.mod("batchie.distance_calculation")
    n = ctx.int("n", 0)
    k = ctx.int("k", 2)
    c = ctx.int("c", 0)
    ctx.assume(c + 1 < k, "both chunk indices below n_chunks")
    if ctx.symbolic:
        N = ctx.int("N", 0)
        ctx.assume(N * 2 == n * (n - 1), "N = n(n-1)/2")
        saved = (dc.lower_triangular_indices, dc.islice)
        _install_abstract(ctx, dc, n, N)
        try:
            s1, e1 = _chunk_window(ctx, dc, n, c, k, N)
            s2, e2 = _chunk_window(ctx, dc, n, c + 1, k, N)
        finally:
            _restore(dc, saved)
        ctx.prove(e1 == s2, "chunk c ends where chunk c+1 starts (disjoint, no gap)")
        ctx.prove(e1 - s1 >= e2 - s2, "chunk sizes are non-increasing")
        return 1
    a = dc.get_lower_triangular_indices_chunk(n, c, k)
    b = dc.get_lower_triangular_indices_chunk(n, c + 1, k)
    full = list(dc.lower_triangular_indices(n))
    i = full.index(a[0]) if a else None
    ok = (full[i:i + len(a) + len(b)] == a + b) if a else (b == [])
    ctx.prove(ok, "chunk c ends where chunk c+1 starts (disjoint, no gap)")
    ctx.prove(len(a) >= len(b), "chunk sizes are non-increasing")
    return 1


def h_pipeline(ctx, cfg):
    """the real generator / consume / islice pipeline: the chunks concatenate to the pairs i>j, in order"""
    dc = ctx.mod("batchie.distance_calculation")
    n = cfg["n"]
    k = ctx.int("k", 1, cfg["kmax"])
    k = int(k)  # solver enumerates every feasible value
    full = [(i, j) for i in range(n) for j in range(i)]
    got = []
    sizes = []
    for c in range(k):
        ch = dc.get_lower_triangular_indices_chunk(n, c, k)
        sizes.append(len(ch))
        got.extend(ch)
    ctx.observe("sizes", sizes)
    ctx.prove(got == full, "chunks concatenate to every pair i>j exactly once, in order")
    ctx.prove(max(sizes) - min(sizes) <= 1, "chunk sizes differ by at most one")
    ctx.prove(dc.get_number_of_lower_triangular_indices(n) == len(full), "number of pairs")
    return k


class _Theta:
    def __init__(self, pred):
        self.pred = pred

    def predict_viability(self, data):
        return self.pred


def _thetas(ctx, core, nt, plen):
    np = ctx.np
    holder = core.ThetaHolder(n_thetas=nt)
    preds = []
    for i in range(nt):
        p = [ctx.real("p%d_%d" % (i, e)) for e in range(plen)]
        preds.append(p)
        holder.add_theta(_Theta(np.array(p, dtype=float)))
    return holder, preds


def _mse(ctx, a, b):
    s = 0.0
    for x, y in zip(a, b):
        s = s + (x - y) * (x - y)
    return s / float(len(a))


def _pick_sequence(ctx, k, length, cover=True):
    seq = []
    for i in range(length):
        v = ctx.int("order%d" % i, 0, k - 1)
        seq.append(int(v))
    return seq


def h_assemble(ctx, cfg):
    np = ctx.np
    dc = ctx.mod("batchie.distance_calculation")
    core = ctx.mod("batchie.core")
    mse = ctx.mod("batchie.distance.mse")
    nt, k = cfg["nt"], cfg["k"]
    holder, preds = _thetas(ctx, core, nt, cfg["plen"])
    metric = mse.MSEDistance(sigmoid=False)
    files = []
    for c in range(k):
        m = dc.calculate_pairwise_distance_matrix_on_predictions(holder, metric, None, chunk_index=c, n_chunks=k)
        fn = ctx.tmp("dist_%d.h5" % c)
        m.save(fn)
        files.append(fn)
    if cfg.get("fixed_order") == "rev":
        seq = list(range(k))[::-1]
    elif cfg.get("fixed_order") == "rot":
        seq = [(i + 3) % k for i in range(k)] + [2]
    else:
        seq = _pick_sequence(ctx, k, k + cfg["extra"])
    covering = set(seq) == set(range(k))
    if not covering:
        # every chunk that is non-empty must be present for the matrix to be complete
        npairs = nt * (nt - 1) // 2
        base, rem = divmod(npairs, k)
        needed = {c for c in range(k) if base + (1 if c < rem else 0) > 0}
        if not needed <= set(seq):
            # a sequence (repeats allowed) that leaves a non-empty chunk out: whatever its entry counts add up to, the
            # combination is incomplete and refuses to be densified
            partial = dc.ChunkedDistanceMatrix.concat([dc.ChunkedDistanceMatrix.load(files[c]) for c in seq])
            ctx.prove(not partial.is_complete(), "matrix missing a pair reports incomplete (chunk sequence with repeats)",
                      key="incomplete combination reported complete")
            try:
                partial.to_dense()
                ctx.fail("to_dense accepted a matrix that is missing pairs (chunk sequence with repeats)", key="incomplete combination densified")
            except ValueError:
                ctx.prove(True, "to_dense refuses a matrix that is missing pairs")
            return seq
    combined = dc.ChunkedDistanceMatrix.concat([dc.ChunkedDistanceMatrix.load(files[c]) for c in seq])
    ctx.prove(combined.is_complete(), "combination of all chunks (any order, repeats allowed) is complete")
    dense = combined.to_dense().tolist()
    single = dc.calculate_pairwise_distance_matrix_on_predictions(holder, metric, None, chunk_index=0, n_chunks=1)
    sdense = single.to_dense().tolist()
    ctx.observe("dense", dense)
    for i in range(nt):
        ctx.prove(ctx.eq(dense[i][i], 0.0), "zero diagonal")
        for j in range(nt):
            if i != j:
                ctx.prove(ctx.eq(dense[i][j], _mse(ctx, preds[i], preds[j])), "entry (i,j) is the metric of the two predictions")
            ctx.prove(ctx.eq(dense[i][j], dense[j][i]), "symmetric")
            ctx.prove(ctx.eq(dense[i][j], sdense[i][j]), "equal to the single-chunk computation")
    return seq


def h_highids(ctx, cfg):
    """sample indices beyond every narrow integer range in a chunk that holds only a few pairs: 300 samples in 200 chunks
    (224-225 pairs each); one chunk (solver-chosen among an early, a middle and the last one) is computed, saved and loaded"""
    np = ctx.np
    dc = ctx.mod("batchie.distance_calculation")
    core = ctx.mod("batchie.core")
    mse = ctx.mod("batchie.distance.mse")
    nt, k = cfg["nt"], cfg["k"]
    holder = core.ThetaHolder(n_thetas=nt)
    special = {0: ctx.real("p0_0"), nt - 1: ctx.real("p1_0"), 256: ctx.real("p2_0")}
    preds = []
    for i in range(nt):
        p = special.get(i, 0.001 * i)
        preds.append(p)
        holder.add_theta(_Theta(np.array([p], dtype=float)))
    chunks = cfg["chunks"]
    c = chunks[int(ctx.int("chunk", 0, len(chunks) - 1))]
    m = dc.calculate_pairwise_distance_matrix_on_predictions(holder, mse.MSEDistance(sigmoid=False), None, chunk_index=c, n_chunks=k)
    n = m.current_index
    before = list(zip(m.row_indices.tolist()[:n], m.col_indices.tolist()[:n], m.values.tolist()[:n]))
    want = list(dc.get_lower_triangular_indices_chunk(nt, c, k))
    ctx.prove([(int(i), int(j)) for i, j, _ in before] == [(int(i), int(j)) for i, j in want], "a chunk holds exactly the pairs of its index chunk")
    fn = ctx.tmp("high_%d.h5" % c)
    m.save(fn)
    back = dc.ChunkedDistanceMatrix.load(fn)
    nb = back.current_index
    after = list(zip(back.row_indices.tolist()[:nb], back.col_indices.tolist()[:nb], back.values.tolist()[:nb]))
    same = len(before) == len(after)
    for (i, j, v), (i2, j2, v2) in zip(before, after):
        same = ctx.And(same, i == i2, j == j2, ctx.eq(v, v2))
    ctx.prove(same, "a saved and loaded chunk holds the same (row, column, value) entries (sample indices past 255)",
              key="chunk entries changed by save/load")
    for i, j, v in before[:3] + before[-3:]:
        ctx.prove(ctx.eq(v, (preds[int(i)] - preds[int(j)]) * (preds[int(i)] - preds[int(j)])), "entry (i,j) is the metric of the two predictions")
    return c


def h_incomplete(ctx, cfg):
    """a combination that misses a non-empty chunk refuses to densify"""
    dc = ctx.mod("batchie.distance_calculation")
    core = ctx.mod("batchie.core")
    mse = ctx.mod("batchie.distance.mse")
    nt, k = cfg["nt"], cfg["k"]
    holder, preds = _thetas(ctx, core, nt, 1)
    metric = mse.MSEDistance(sigmoid=False)
    missing = int(ctx.int("missing", 0, k - 1))
    chunks = [dc.calculate_pairwise_distance_matrix_on_predictions(holder, metric, None, chunk_index=c, n_chunks=k)
              for c in range(k)]
    npairs = nt * (nt - 1) // 2
    base, rem = divmod(npairs, k)
    if base + (1 if missing < rem else 0) == 0:
        ctx.assume(False)
    present = [chunks[c] for c in range(k) if c != missing]
    if not present:
        ctx.assume(False)
    combined = dc.ChunkedDistanceMatrix.concat(present)
    ctx.prove(not combined.is_complete(), "matrix missing a pair reports incomplete")
    try:
        combined.to_dense()
        ctx.fail("to_dense accepted a matrix that is missing pairs")
    except ValueError:
        ctx.prove(True, "to_dense refuses a matrix that is missing pairs")
    return missing


def h_metric(ctx, cfg):
    np = ctx.np
    mse = ctx.mod("batchie.distance.mse")
    n = cfg["n"]
    a = [ctx.real("a%d" % i) for i in range(n)]
    b = [ctx.real("b%d" % i) for i in range(n)]
    m = mse.MSEDistance(sigmoid=cfg["sigmoid"])
    A, B = np.array(a, dtype=float), np.array(b, dtype=float)
    dab, dba, daa = m.distance(A, B), m.distance(B, A), m.distance(A, A.copy())
    ctx.observe("d", [dab, dba, daa])
    ctx.prove(ctx.eq(dab, dba), "metric is symmetric")
    ctx.prove(dab >= 0, "metric is non-negative")
    ctx.prove(ctx.eq(daa, 0.0), "metric is zero on identical predictions")
    if not cfg["sigmoid"]:
        ctx.prove(ctx.eq(dab, _mse(ctx, a, b)), "metric is the mean of squared differences")
        if ctx.mode != "sym":
            # concrete fixtures: floating-point accuracy relative to the exact (rational) mean of squared differences
            from fractions import Fraction
            exact = sum((Fraction(float(x)) - Fraction(float(y))) ** 2 for x, y in zip(a, b)) / n
            ctx.prove(abs(Fraction(float(dab)) - exact) <= exact / 10 ** 6,
                      "metric equals the mean of squared differences to a relative accuracy of 1e-6 (also for nearly identical predictions)",
                      key="metric loses its digits on nearly identical predictions")
    return 1


def h_guards(ctx, cfg):
    """add_value refuses out-of-range and upper-triangular indices"""
    dc = ctx.mod("batchie.distance_calculation")
    n = 3
    i = ctx.int("i", 0, 4)
    j = ctx.int("j", 0, 4)
    v = ctx.real("v")
    m = dc.ChunkedDistanceMatrix(n)
    bad = ctx.Or(i >= n, j >= n, i < j)
    try:
        m.add_value(i, j, v)
        ctx.prove(ctx.Not(bad), "add_value accepted only in-range lower-triangular indices")
        ctx.prove(ctx.And(m.row_indices[0] == i, m.col_indices[0] == j, ctx.eq(m.values[0], v)), "add_value stores (i,j,value)")
    except ValueError:
        ctx.prove(bad, "add_value rejected only out-of-range / upper-triangular indices")
    return 1


CROSSHAIR_CONTRACTS = '''
from batchie.distance_calculation import get_lower_triangular_indices_chunk, lower_triangular_indices


def _partition(n: int, k: int) -> bool:
    """
    pre: 0 <= n <= 5 and 1 <= k <= 12
    post: _
    """
    allp = []
    sizes = []
    for c in range(k):
        ch = get_lower_triangular_indices_chunk(n, c, k)
        sizes.append(len(ch))
        allp.extend(ch)
    return allp == list(lower_triangular_indices(n)) and max(sizes) - min(sizes) <= 1
'''


def extra(tier, seed, deadline):
    from .. import loader as _ld
    if tier != "thorough" or _ld.CURRENT_PATCHES:
        return {}
    from ..crosshair_x import run_contracts
    ch = run_contracts(CROSSHAIR_CONTRACTS)
    inc = ["CrossHair cross-check disagrees (counterexample on the real function): %s" % c for c in ch["counterexamples"]]
    return dict(inconclusive=inc, coverage=dict(crosshair_cross_check={k: v for k, v in ch.items() if k != "raw"}))


def h_cli(ctx, cfg):
    """the command-line step: per-chunk files written by calculate_distance_matrix assemble, in any order, to the
    matrix of MSE distances between the samples' viability predictions"""
    import argparse
    from .common import cli_main, cli_argv, concrete_screen
    np = ctx.np
    dc = ctx.mod("batchie.distance_calculation")
    core = ctx.mod("batchie.core")
    sc = ctx.mod("batchie.models.sparse_combo")
    mse = ctx.mod("batchie.distance.mse")
    nt = cfg["nt"]
    rows = [("s1", "a", 1.0, "b", 1.0, "p"), ("s2", "a", 1.0, "", 0.0, "p"), ("s1", "b", 2.0, "a", 1.0, "q")]
    screen = concrete_screen(ctx, rows)
    sfn = ctx.tmp("screen.h5")
    screen.save_h5(sfn)
    nS, nT = screen.sample_space_size, screen.treatment_space_size
    holder = core.ThetaHolder(n_thetas=nt)
    alphas = [ctx.real("p%d_0" % t) for t in range(nt)]
    for t in range(nt):
        holder.add_theta(sc.SparseDrugComboMCMCSample(
            W=np.array([[0.1 * (t + 1)]] * nS, dtype=float), W0=np.array([0.05 * s for s in range(nS)], dtype=float),
            V2=np.array([[0.2 + 0.1 * k] for k in range(nT)], dtype=float), V1=np.array([[0.3 - 0.1 * k] for k in range(nT)], dtype=float),
            V0=np.array([0.0] * nT, dtype=float), alpha=alphas[t], precision=1.0))
    tfn = ctx.tmp("thetas.h5")
    holder.save_h5(tfn)
    k = int(ctx.int("k", 1, cfg["kmax"]))
    files = []
    for c in range(k):
        out = ctx.tmp("dist_%d.h5" % c)
        cli_argv(ctx, "batchie.cli.calculate_distance_matrix", ["--data", sfn, "--thetas", tfn, "--distance-metric", "MSEDistance",
                                                                   "--n-chunks", k, "--chunk-index", c, "--output", out])
        files.append(out)
    rot = int(ctx.int("order0", 0, k - 1))
    seq = [(i + rot) % k for i in range(k)][::-1]
    dense = dc.ChunkedDistanceMatrix.concat([dc.ChunkedDistanceMatrix.load(files[c]) for c in seq]).to_dense().tolist()
    metric = mse.MSEDistance()
    preds = [holder.get_theta(t).predict_viability(screen) for t in range(nt)]
    for i in range(nt):
        for j in range(nt):
            want = 0.0 if i == j else metric.distance(preds[i], preds[j])
            ctx.prove(ctx.eq(dense[i][j], want), "command-line chunks assemble to the metric of the two samples' viability predictions")
    return seq


def run(ctx, cfg):
    return {"cli": h_cli, "arith": h_arith, "arith_pair": h_arith_pair, "pipeline": h_pipeline, "assemble": h_assemble,
            "incomplete": h_incomplete, "highids": h_highids, "metric": h_metric, "guards": h_guards}[cfg["h"]](ctx, cfg)
