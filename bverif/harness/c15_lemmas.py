"""C15-B: loop-invariant lemmas for generate_combination_at_sorted_index with *symbolic, unbounded* n and index
(k = 1..4 concrete).  The statements of the function are cut out of the current source with `ast` and each segment
is executed once on an arbitrary symbolic state satisfying the invariant; z3 decides the resulting integer queries.

Notation: P(x, j) = x (x-1) ... (x-j+1);  C(x, j) = P(x, j) / j!.
Invariant at the head of the `while` for level j (the loop variable k of the source):
    I(j):  (j-1)! n_ck = P(n-1, j-1)   and   j! (cur - base) = P(n, j)   and   base <= index < cur   and   n >= j
Trusted number theory (stated in the evidence): j! divides every product of j consecutive integers (so the integers
c with j! c = P(x, j) exist), and the combinatorial number system index = sum_j C(a_j, j), a_k > ... > a_1 >= 0, is unique
and order preserving."""
import ast
import math
import os
import time

import z3

from ..engine import SymInt, SymBool

SRC = os.path.join(os.environ.get("BVERIF_REPO", "/repo"), "src", "batchie", "scoring", "gaussian_dbal.py")


def _P(x, j):
    r = z3.IntVal(1)
    for i in range(j):
        r = r * (x - i)
    return r


def _sym_range(start, stop=None, step=1):
    if stop is None:
        start, stop = 0, start
    if not any(isinstance(v, SymInt) for v in (start, stop, step)):
        return range(start, stop, step)
    diff = stop - start
    d = z3.simplify(diff.e) if isinstance(diff, SymInt) else z3.IntVal(diff)
    if not z3.is_int_value(d) or not isinstance(step, int):
        raise ValueError("range with a symbolic number of items")
    count = len(range(0, d.as_long(), step))
    return [start + i * step for i in range(count)]


class Cut:
    """the pieces of the function, as compiled code objects"""

    def __init__(self, src):
        tree = ast.parse(src)
        fn = next((n for n in tree.body if isinstance(n, ast.FunctionDef) and n.name == "generate_combination_at_sorted_index"), None)
        if fn is None:
            raise LookupError("generate_combination_at_sorted_index not found")
        body = [s for s in fn.body if not (isinstance(s, ast.Expr) and isinstance(getattr(s, "value", None), ast.Constant))]
        fors = [s for s in body if isinstance(s, ast.For)]
        if len(fors) != 2 or body[-1] is not fors[1]:
            raise LookupError("expected: initialisation, binomial loop, current_index assignment, main loop")
        main = fors[1]
        init = body[:body.index(main)]
        whiles = [s for s in main.body if isinstance(s, ast.While)]
        if len(whiles) != 1:
            raise LookupError("expected exactly one while loop in the main loop")
        w = whiles[0]
        iw = main.body.index(w)
        head, tail = main.body[:iw], main.body[iw + 1:]
        if not tail or not isinstance(tail[-1], ast.Expr) or not isinstance(tail[-1].value, ast.Yield):
            raise LookupError("expected the main loop to end with a yield")
        self.loop_var = main.target.id if isinstance(main.target, ast.Name) else None
        it = main.iter
        ok = (isinstance(it, ast.Call) and getattr(it.func, "id", None) == "range" and len(it.args) == 3)
        if not ok or self.loop_var is None:
            raise LookupError("expected `for k in range(k, 0, -1)`")
        self.range_args = [compile(ast.Expression(a), "<range-arg>", "eval") for a in it.args]
        mk = lambda stmts: compile(ast.fix_missing_locations(ast.Module(body=stmts, type_ignores=[])), "<cut>", "exec")
        self.init = mk(init)
        self.head = mk(head)
        self.test = compile(ast.fix_missing_locations(ast.Expression(w.test)), "<cut>", "eval")
        self.wbody = mk(w.body)
        self.tail = mk(tail[:-1])
        self.yielded = compile(ast.fix_missing_locations(ast.Expression(tail[-1].value.value)), "<cut>", "eval")


def _ns(**kw):
    d = dict(range=_sym_range, zip=zip)
    d.update(kw)
    return d


def _e(v):
    return v.e if isinstance(v, (SymInt, SymBool)) else (z3.IntVal(v) if isinstance(v, int) else v)


class Report:
    def __init__(self, deadline):
        self.deadline = deadline
        self.labels, self.stats = {}, dict(queries=0, solver_s=0.0, obligations=0, discharged=0, sat=0, unsat=0, unknown=0)
        self.samples, self.inconclusive, self.violations = [], [], []

    def prove(self, hyps, goal, label, info):
        st = self.labels.setdefault(label, [0, 0])
        st[0] += 1
        self.stats["obligations"] += 1
        s = z3.Solver()
        s.set("timeout", 120000)
        s.set("random_seed", 7)
        s.add(*hyps)
        s.add(z3.Not(goal))
        t = time.time()
        r = s.check()
        self.stats["solver_s"] += time.time() - t
        self.stats["queries"] += 1
        self.stats[str(r)] += 1
        if r == z3.unsat:
            st[1] += 1
            self.stats["discharged"] += 1
            if len(self.samples) < 2:
                self.samples.append(dict(lemma=label, k=info.get("k"), hypotheses=len(hyps), verdict="unsat"))
            return True
        if r == z3.sat:
            m = s.model()
            self.failed_models.append((label, info, {str(d): m[d] for d in m.decls()}))
        else:
            self.inconclusive.append("C15 lemma '%s' (k=%s): solver unknown" % (label, info.get("k")))
        return False

    failed_models = []


def _reference_unrank(index, n, k):
    """greedy combinatorial-number-system unranking, independent of the code under test"""
    out = []
    for j in range(k, 0, -1):
        a = j - 1
        while math.comb(a + 1, j) <= index:
            a += 1
        out.append(a)
        index -= math.comb(a, j)
    return tuple(out)


def run(tier, seed, deadline, get_real_function):
    rep = Report(deadline)
    rep.failed_models = []
    try:
        from .. import loader as _ld
        src = _ld.Loader(patches=_ld.CURRENT_PATCHES).read_source("batchie.scoring.gaussian_dbal", SRC)
        cut = Cut(src)
    except (LookupError, SyntaxError) as ex:
        rep.inconclusive.append("C15 lemmas: source shape not recognised (%s)" % ex)
        return rep
    I = z3.Int
    for K in (1, 2, 3, 4):
        # ---- L0: initialisation computes C(n, K) exactly
        n, index = I("n"), I("index")
        ws = [I("c%d" % i) for i in range(K + 1)]
        hyps = [n >= 0] + [math.factorial(i) * ws[i] == _P(n, i) for i in range(1, K + 1)]
        ns = _ns(n=SymInt(n), k=K, index=SymInt(index))
        try:
            exec(cut.init, ns)
        except Exception as ex:
            rep.inconclusive.append("C15 lemmas: initialisation segment not executable symbolically (%r)" % (ex,))
            return rep
        nck0, cur0 = _e(ns["n_ck"]), _e(ns["current_index"])
        rep.prove(hyps, z3.And(math.factorial(K) * nck0 == _P(n, K), cur0 == nck0), "L0 initialisation: n_ck = current_index = C(n,k)", dict(k=K))
        # the main loop visits k, k-1, ..., 1
        lo, hi, st = [eval(c, _ns(n=0, k=K)) for c in cut.range_args]
        if list(range(lo, hi, st)) != list(range(K, 0, -1)):
            rep.inconclusive.append("C15 lemmas: main loop does not iterate k, k-1, ..., 1")
            return rep
        for j in range(K, 0, -1):
            fj, fj1 = math.factorial(j), math.factorial(j - 1)
            n, nck, cur, base, index = I("n"), I("n_ck"), I("cur"), I("base"), I("index")
            c, c1, c2 = I("c"), I("c1"), I("c2")
            # ---- L1: level head re-establishes the while invariant from the level-entry invariant E(j)
            E = [n >= 0, fj * nck == _P(n, j), cur - base == nck, base <= index, index < cur, base >= 0]
            wit = [fj1 * c == _P(n - 1, j - 1)]
            ns = _ns(n=SymInt(n), n_ck=SymInt(nck), current_index=SymInt(cur), index=SymInt(index))
            ns[cut.loop_var] = j
            exec(cut.head, ns)
            nck_h = _e(ns["n_ck"])
            rep.prove(E, n >= j, "L1a level entry: n >= k (C(n,k) > 0)", dict(k=j))
            rep.prove(E + wit + [n >= j], z3.And(fj1 * nck_h == _P(n - 1, j - 1), _e(ns["current_index"]) == cur, _e(ns["n"]) == n),
                      "L1b level head: n_ck becomes C(n-1,k-1)", dict(k=j))
            # ---- L2: one iteration of the while loop preserves I(j) and decreases n
            Inv = [n >= j, fj1 * nck == _P(n - 1, j - 1), fj * (cur - base) == _P(n, j), base <= index, index < cur, base >= 0]
            ns = _ns(n=SymInt(n), n_ck=SymInt(nck), current_index=SymInt(cur), index=SymInt(index))
            ns[cut.loop_var] = j
            test = _e(eval(cut.test, ns))
            wit2 = [fj1 * c1 == _P(n - 2, j - 1), fj * c2 == _P(n - 1, j)]
            t = nck * (n - j)
            rep.prove(Inv + wit2 + [test], z3.And(t == j * c2, t == (n - 1) * c1), "L2a step: n_ck (n-k) = k C(n-1,k) = (n-1) C(n-2,k-1)", dict(k=j))
            rep.prove(Inv + wit2 + [test, t == j * c2], n - 1 >= j, "L2b step: loop continues only while n-1 >= k", dict(k=j))
            exec(cut.wbody, ns)
            n2, nck2, cur2 = _e(ns["n"]), _e(ns["n_ck"]), _e(ns["current_index"])
            lem = [t == j * c2, t == (n - 1) * c1, n - 1 >= j]
            # the division/modulo step is decided on an abstract product tt (the source's n_ck*(n-k) is replaced by tt)
            tt = I("tt")
            nck2_abs = z3.substitute(nck2, (t, tt))
            if z3.eq(nck2_abs, nck2):
                # the source does not form the product n_ck*(n-k) literally: nothing to abstract, decide the step as it is written
                rep.prove(lem + [n >= j], z3.And(n2 == n - 1, nck2 == c1, cur2 == cur - nck),
                          "L2c step: the body computes n-1, C(n-2,k-1), cur - n_ck", dict(k=j))
            else:
                rep.prove([tt == j * c2, tt == (n - 1) * c1, n - 1 >= j, n >= j], z3.And(n2 == n - 1, nck2_abs == c1, cur2 == cur - nck),
                          "L2c step: the body computes n-1, C(n-2,k-1), cur - n_ck", dict(k=j))
                rep.prove([], z3.substitute(nck2_abs, (tt, t)) == nck2, "L2c' abstraction of the product is faithful", dict(k=j))
            rep.prove(Inv + wit2 + [test] + lem + [n2 == n - 1, nck2 == c1, cur2 == cur - nck],
                      z3.And(n2 >= j, fj1 * nck2 == _P(n2 - 1, j - 1), fj * (cur2 - base) == _P(n2, j), base <= index, index < cur2),
                      "L2d step: invariant re-established, n strictly smaller", dict(k=j))
            # ---- L3: exit: the emitted element is the combinatorial-number-system digit; next level's entry invariant holds
            ns = _ns(n=SymInt(n), n_ck=SymInt(nck), current_index=SymInt(cur), index=SymInt(index))
            ns[cut.loop_var] = j
            exec(cut.tail, ns)
            a = _e(eval(cut.yielded, ns))
            lo_ = cur - nck
            witx = [fj * c2 == _P(n - 1, j)]
            rep.prove(Inv + witx + [z3.Not(test)],
                      z3.And(a == n - 1, a >= j - 1, lo_ <= index, index < cur, fj * (lo_ - base) == _P(a, j), fj * (cur - base) == _P(a + 1, j)),
                      "L3a exit: emitted a satisfies base + C(a,k) <= index < base + C(a+1,k)", dict(k=j))
            if j > 1:
                rep.prove(Inv + witx + [z3.Not(test)],
                          z3.And(a >= 0, fj1 * nck == _P(a, j - 1), cur - lo_ == nck, lo_ <= index, index < cur, lo_ >= 0),
                          "L3b exit: entry invariant of level k-1 with base' = base + C(a,k), n' = a", dict(k=j))
            else:
                rep.prove(Inv + witx + [z3.Not(test)], z3.And(index == base + a, a >= 0), "L3c last level: index = base + a (representation complete)", dict(k=j))
    # ---- failed lemmas: try to turn the solver's state into a concrete failing call of the real function
    if rep.failed_models:
        f = get_real_function()
        found = None
        for label, info, model in rep.failed_models:
            for nn in range(0, 15):
                for kk in range(1, 5):
                    for idx in range(math.comb(nn, kk)):
                        try:
                            got = tuple(int(x) for x in f(idx, nn, kk))
                        except Exception as ex:
                            got = "raises %s" % type(ex).__name__
                        if got != _reference_unrank(idx, nn, kk):
                            found = (idx, nn, kk, got, _reference_unrank(idx, nn, kk))
                            break
                    if found:
                        break
                if found:
                    break
            if found:
                rep.violations.append(dict(label="combination unranking differs from the combinatorial number system", key="unranking lemma failed: %s" % label,
                                           model=dict(index=found[0], n=found[1], k=found[2]), detail="f%s = %s, expected %s" % (found[:3], found[3], found[4]),
                                           cfg=dict(name="lemmas", h="lemma_replay"), confirmed=True, notes=[]))
                break
        if not found:
            for label, info, model in rep.failed_models[:3]:
                rep.inconclusive.append("C15 lemma '%s' (k=%s) has a counter-model %s but no concrete failing call was found for n < 15" % (label, info.get("k"), str(model)[:200]))
    return rep
