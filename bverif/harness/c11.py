"""C11 harness: see retro_ops.py (one driver, two sets of post-conditions)."""
from .retro_ops import op_configs, run_op
from .retro_common import fixture_values

PROPERTY = "C11"
LEVEL = "model_checking"
TASK_QUOTA = 60
BUDGET_S = {"quick": 600, "thorough": 3000}
FUNCTIONS = [
    "batchie.core.RetrospectivePlateGenerator.generate_plates / RetrospectivePlateSmoother.smooth_plates / InitialRetrospectivePlateGenerator.generate_and_unmask_initial_plate",
    "batchie.retrospective.PairwisePlateGenerator / PlatePermutationPlateGenerator / SampleSegregatingPermutationPlateGenerator._generate_plates",
    "batchie.retrospective.MergeMinPlateSmoother / MergeTopBottomPlateSmoother / FixedSizeSmoother / OptimalSizeSmoother / NPlatePerCellLineSmoother / BatchieEnsemblePlateSmoother._smooth_plates",
    "batchie.retrospective.SparseCoverPlateGenerator._generate_and_unmask_initial_plate",
    "batchie.data.Plate.merge / Screen.combine / ScreenSubset.to_screen / filter_dataset_to_treatments_that_appear_in_at_least_one_combo",
    "batchie.retrospective.create_plate_balanced_holdout_set_among_masked_plates / create_random_holdout",
]
BOUNDS = {
    "quick": "six hand-written screen families of 4-7 rows (<=3 samples, <=5 plates, duplicate conditions, single-agent rows, observed and unobserved plates); every integer parameter in its stated small range; hold-out fraction an arbitrary real in [0,1]; every value the random generator can return; plus two generated structures (9 rows on 5+1 plates and 10 rows on 6 plates, repeated plate sizes, rows of a plate not adjacent) under every operation; three operations on a screen with a NaN outcome on a plate not yet observed; six smoothers on a screen with a single unobserved plate",
    "thorough": "six hand-written families with up to 7 rows per operation plus 64 generated screen structures (up to 12 rows on up to 7 plates; operations whose draws are permutations of all rows on at most 6-7 rows of 24 structures) under every operation",
}
ASSUMPTIONS = [
    "each row carries its own symbolic observation value, which acts as an unforgeable identity tag of the row",
    "rng.permutation / rng.choice return an arbitrary permutation / subset / element (every one explored by solver-driven forking)",
    "names/doses concrete per family (arbitrary names: C01)",
    "ceil(fraction x size) is the real ceiling (binary floating point differs only when the product is within an ulp of an integer)",
]
OUTSIDE = ["screens above the row bound", "operations that raise (for which it returns)", "floating-point evaluation of fraction x size"]
RULE = "parameters and every random draw are solver-enumerated; observation tags and the hold-out fraction stay symbolic."


def configs(tier, seed):
    return op_configs(tier)


def fixtures(cfg):
    return fixture_values()


def run(ctx, cfg):
    return run_op(ctx, cfg, True, False)
