"""C19 - the orchestration script resumes correctly after an interruption at any point."""
import argparse
import builtins
import json
import os
import re
import shutil
import tempfile
import types

from .. import symfs
from ..symfs import Crash

PROPERTY = "C19"
LEVEL = "model_checking"
SCRIPT = os.path.join(os.environ.get("BVERIF_REPO", "/repo"), "nextflow", "scripts", "batchie.py")
FUNCTIONS = [
    "nextflow/scripts/batchie.py: main, run_next_retrospective_step, run_next_prospective_step, examine_output_dir_to_determine_current_iteration",
    "nextflow/scripts/batchie.py: run_initial_plate, run_first_batch_plate, run_first_prospective_batch_plate, run_subsequent_batch_plate",
    "nextflow/scripts/batchie.py: get_screen_from_job_output, get_test_screen_from_job_output, validate_job_dir_and_return_meta, get_theta_and_dist_chunks, get_selected_plates, dir_sort_key",
]
BOUNDS = {
    "quick": "retrospective mode: 3 plates (batch size symbolic in 1..2) and 4 plates (batch 1..3); prospective mode: batch size 1..3; one interruption at any numbered mutation point of the whole run (each mkdir of each path component, each entry removed by rmtree, inside a pipeline run with any dependency-closed subset of its outputs published, just after a step); every pair of interruptions (second one during the recovery) for 3 plates / batch <= 2; a 12-plate batch-1 retrospective run and the eleventh prospective round (iter_10 next to iter_2..iter_9); completed steps are recorded at the instant of the interruption (handlers of the script run afterwards); every restart loads the script anew (no module-level state survives)",
    "thorough": "additionally retrospective 5 plates with batch 1..4, two interruptions for 4 plates / batch <= 3, prospective batch up to 5 and two interruptions with batch <= 3; retrospective 6 plates (batch 1..5), 5 plates with two interruptions, 13 plates with batch 1..3; prospective rounds after 1, 3, 10, 11 and 101 earlier uninterrupted rounds",
}
ASSUMPTIONS = [
    "filesystem model: a directory tree with atomic single-entry mkdir / unlink / file publish; os.makedirs and shutil.rmtree are sequences of such steps",
    "nextflow run is a stub that publishes, under <outdir>/<name>/, the files the workflow definitions emit, in any order consistent with the process dependencies "
    "(retrospective / next_plate: training+test screens -> thetas -> distance chunks -> selected_plate -> advanced_screen -> screen_metadata.json; "
    "prospective: screen_metadata.json depends on the input screen only); a killed run leaves any dependency-closed subset of them",
    "a step's selected plate is a deterministic function of the step's inputs (contents of the input screen, thetas, excludes)",
    "recovery protocol: the script is restarted; when it raises the RuntimeError that names a directory, that directory is removed and the script restarted",
]
OUTSIDE = ["torn writes inside one file", "concurrent invocations of the script", "the Groovy semantics of the .nf files (read as a dependency graph)"]
RULE = "the interruption point (and the partial output set of an interrupted pipeline run) is a solver-chosen value; each path is one interrupted-and-resumed execution compared with the uninterrupted one."
BUDGET_S = {"quick": 600, "thorough": 3000}
TASK_QUOTA = 12
EXCEPTIONS_ARE_VIOLATIONS = True


def configs(tier, seed):
    q = tier == "quick"
    out = [dict(name="retrospective P=3", h="resume", mode="retrospective", P=3, bmax=2, crashes=1),
           dict(name="retrospective P=4", h="resume", mode="retrospective", P=4, bmax=3, crashes=1),
           dict(name="prospective", h="resume", mode="prospective", P=3, bmax=3, crashes=1),
           dict(name="retrospective P=12 batch=1 (more than ten iterations)", h="resume", mode="retrospective", P=12, bmax=1, crashes=1, split_after=2),
           dict(name="retrospective P=3 two interruptions", h="resume", mode="retrospective", P=3, bmax=2, crashes=2),
           dict(name="prospective two interruptions", h="resume", mode="prospective", P=3, bmax=2, crashes=2)]
    out.append(dict(name="prospective, eleventh round (ten earlier rounds)", h="resume", mode="prospective", P=3, bmax=1, crashes=1, pre=10))
    if not q:
        out += [dict(name="retrospective P=6", h="resume", mode="retrospective", P=6, bmax=5, crashes=1),
                dict(name="retrospective P=5 two interruptions", h="resume", mode="retrospective", P=5, bmax=2, crashes=2),
                dict(name="retrospective P=13 batch<=3 (more than ten iterations)", h="resume", mode="retrospective", P=13, bmax=3, crashes=1),
                dict(name="prospective, rounds 2-4 and 12", h="resume", mode="prospective", P=3, bmax=2, crashes=1, pre=1),
                dict(name="prospective, fourth round two interruptions", h="resume", mode="prospective", P=3, bmax=2, crashes=2, pre=3),
                dict(name="prospective, twelfth round two interruptions", h="resume", mode="prospective", P=3, bmax=2, crashes=2, pre=11),
                dict(name="prospective b<=5", h="resume", mode="prospective", P=3, bmax=5, crashes=1),
                dict(name="prospective, 102nd round (iter_100 next to iter_11)", h="resume", mode="prospective", P=3, bmax=1, crashes=1, pre=101, split_after=1),
dict(name="retrospective P=5", h="resume", mode="retrospective", P=5, bmax=4, crashes=1),
                dict(name="retrospective P=4 two interruptions", h="resume", mode="retrospective", P=4, bmax=3, crashes=2),
                dict(name="prospective b<=4", h="resume", mode="prospective", P=3, bmax=4, crashes=1),
                dict(name="prospective b<=3 two interruptions", h="resume", mode="prospective", P=3, bmax=3, crashes=2)]
    return out


def fixtures(cfg):
    return []  # the filesystem model is exercised against the real filesystem by every replay; no numeric model to validate


# ------------------------------------------------------------------------------------------- script loading
def _load_script(ctx, fs, check_call):
    if ctx.mode == "sym":
        src = ctx.L.read_source("nextflow_script", SCRIPT)
    else:
        src = open(SCRIPT).read()
    shims, fake_open = symfs.shims(fs, check_call)
    mod = types.ModuleType("nextflow_script")
    mod.__file__ = "/repo/nextflow/scripts/batchie.py"

    def imp(name, g=None, l=None, fromlist=(), level=0):
        if name in shims:
            return shims[name]
        return builtins.__import__(name, g, l, fromlist, level)
    bi = dict(builtins.__dict__)
    bi["__import__"] = imp
    bi["open"] = fake_open
    mod.__dict__["__builtins__"] = bi
    exec(compile(src, SCRIPT, "exec"), mod.__dict__)
    import logging
    mod.logger.setLevel(logging.CRITICAL + 1)
    for h in list(mod.logger.handlers):
        mod.logger.removeHandler(h)
    return mod


# ------------------------------------------------------------------------------------------- pipeline stub
class Pipeline:
    def __init__(self, ctx, fs, P, mode, choose):
        self.ctx, self.fs, self.P, self.mode, self.choose = ctx, fs, P, mode, choose
        self.launches = []
        self.nruns = 0
        self.allow = 0  # launches of earlier, uninterrupted rounds

    def __call__(self, cmd, cwd=None):
        fs = self.fs
        a = {cmd[i]: cmd[i + 1] for i in range(len(cmd) - 1) if cmd[i].startswith("-")}
        exc = [c for c in cmd if c.startswith("--excludes=")]
        out, name, mode = a["--outdir"], a["--name"], a["--mode"]
        d = out + "/" + name

        def content(p):
            return fs.read(p) if p is not None and fs.exists(p) and not fs.isdir(p) else None
        thetas_glob = a.get("--thetas")
        th = None
        if thetas_glob is not None:
            th = ",".join(fs.read(p) for p in fs.glob(thetas_glob))
        key = dict(mode=mode, screen=a.get("--screen"), screen_content=content(a.get("--screen")),
                   training=a.get("--training_screen"), training_content=content(a.get("--training_screen")),
                   test=a.get("--test_screen"), thetas=thetas_glob, thetas_content=th, dist=a.get("--distance_matrix"),
                   excludes=exc[0] if exc else None, initialize=a.get("--initialize"), reveal=a.get("--reveal"), name=name)
        self.launches.append((out, key))
        self.nruns += 1
        if self.nruns > 6 * self.P + 12 + self.allow:
            self.ctx.fail("the script keeps launching steps (a simulation of %d plates needs at most %d)" % (self.P, self.P),
                          key="%s: script does not terminate" % self.mode, detail="last launch: %s" % out)
        files = []  # (filename, content, deps)
        if mode == "retrospective":
            if a["--initialize"] == "true":
                cur = "train0"
                files += [("training.screen.h5", "train0", []), ("test.screen.h5", "test0", [])]
                dep0 = ["training.screen.h5", "test.screen.h5"]
            else:
                cur = key["training_content"]
                if cur is None:
                    self.ctx.fail("a step was started from a screen that does not exist (deleted or never produced)",
                                  key="%s: step started from a missing screen" % self.mode, detail="%s --training_screen %s" % (out, a["--training_screen"]))
                dep0 = []
            th = "thetas(%s)" % cur
            files += [("thetas_0.h5", th, dep0), ("distance_matrix_chunk_0.h5", "dist(%s)" % cur, ["thetas_0.h5"])]
            sel = _sel(cur, th, "")
            files += [("selected_plate", sel, ["distance_matrix_chunk_0.h5"]),
                      ("advanced_screen.h5", cur + ">" + sel, ["selected_plate"])]
            remaining = self.P - (cur + ">" + sel).count(">")
            files += [("screen_metadata.json", json.dumps({"n_unobserved_plates": remaining}), ["advanced_screen.h5"])]
        elif mode == "next_plate":
            cur = key["screen_content"]
            if cur is None:
                self.ctx.fail("a step was started from a screen that does not exist (deleted or never produced)",
                              key="%s: step started from a missing screen" % self.mode, detail="%s --screen %s" % (out, a["--screen"]))
            if not th:
                self.ctx.fail("a step was started without posterior samples", key="%s: step started without thetas" % self.mode, detail=out)
            sel = _sel(cur, th, exc[0] if exc else "")
            files += [("selected_plate", sel, []), ("advanced_screen.h5", cur + ">" + sel, ["selected_plate"])]
            remaining = self.P - (cur + ">" + sel).count(">")
            files += [("screen_metadata.json", json.dumps({"n_unobserved_plates": remaining}), ["advanced_screen.h5"])]
        elif mode == "prospective":
            cur = key["screen_content"]
            if cur is None:
                self.ctx.fail("a step was started from a screen that does not exist", key="%s: step started from a missing screen" % self.mode, detail=out)
            th = "thetas(%s)" % cur
            files += [("screen_metadata.json", json.dumps({"n_unobserved_plates": self.P}), []),
                      ("thetas_0.h5", th, []), ("distance_matrix_chunk_0.h5", "dist(%s)" % cur, ["thetas_0.h5"]),
                      ("selected_plate", _sel(cur, th, ""), ["distance_matrix_chunk_0.h5"])]
        else:
            raise ValueError("unknown pipeline mode %r" % mode)
        # every task writes its output into the work directory the script passes (-work-dir <step dir>/work) and the file is
        # published to <step dir>/<name>/ afterwards
        wd = a.get("-work-dir")

        def in_work(k, fn, c):
            if wd is None:
                return
            tdir = "%s/%02x/task%d/%s" % (wd, k, k, name)
            # not interruption points of their own: an interruption inside a pipeline run is the choice made below
            saved = (fs.armed, fs.ticks)
            fs.armed = False
            if not fs.exists(tdir):
                fs.makedirs(tdir)
            fs.write(tdir + "/" + fn, c)
            fs.armed, fs.ticks = saved
        if fs.crash_now("pipeline run " + out):
            # killed mid-run: any dependency-closed subset of the outputs has been published; at most one further task has
            # finished in the work directory without its output having been published yet
            fs.armed = False
            done = []
            for k, (fn, c, deps) in enumerate(files):
                if all(x in done for x in deps) and self.choose("%d_%s" % (self.nruns, fn)):
                    in_work(k, fn, c)
                    if not fs.exists(d):
                        fs.makedirs(d)
                    fs.write(d + "/" + fn, c)
                    done.append(fn)
            # (only for the two files the script's completeness test looks for; the others are never searched for by name)
            pending = [(k, fn, c) for k, (fn, c, deps) in enumerate(files) if fn not in done and all(x in done for x in deps)
                       and fn in ("selected_plate", "screen_metadata.json")]
            extra = ""
            for k, fn, c in pending:
                if self.choose("%d_work_%s" % (self.nruns, fn)):
                    in_work(k, fn, c)
                    extra = "; finished but unpublished: " + fn
                    break
            if fs.on_crash is not None:
                fs.on_crash()
            raise Crash("pipeline run " + out + " published " + ",".join(done) + extra)
        fs.makedirs(d, exist_ok=True)
        for k, (fn, c, deps) in enumerate(files):
            in_work(k, fn, c)
            fs.write(d + "/" + fn, c)


def _sel(cur, th, exc):
    """the selected plate: a deterministic, injective function of the step's inputs (no '>' inside: '>' counts steps)"""
    return ("sel[%s|%s|%s]" % (cur, th, exc)).replace(">", "~")


def _crash_now(self, what):
    if self.armed and self.crash_hook is not None and self.crash_hook(self.ticks, what):
        self.ticks += 1
        return True
    self.ticks += 1
    return False


symfs.FSBase.crash_now = _crash_now


# ------------------------------------------------------------------------------------------- driving the script
def _mkfs(ctx, hook, tag):
    if ctx.mode == "real":
        root = tempfile.mkdtemp(prefix="bverif_c19_%s_" % tag)
        fs = symfs.RealFS(root, hook)
    else:
        fs = symfs.MemFS(hook)
    saved = fs.armed
    fs.armed = False
    fs.makedirs("/in")
    fs.write("/in/scr.h5", "raw")
    fs.ticks = 0
    fs.armed = saved
    return fs


def _invoke(mod, mode, batch):
    ns = argparse.Namespace(screen="/in/scr.h5", batch_size=batch, mode=mode, outdir="/out")
    mod.get_args = lambda: (ns, [])
    mod.main()


def _recover(ctx, fresh, fs, mode, batch, log):
    """operator protocol after an interruption: restart; remove the directory the script names; restart.  Every restart
    is a new process: the script is loaded anew (nothing kept in module-level state survives an interruption)"""
    for _ in range(12):
        try:
            _invoke(fresh(), mode, batch)
            return True
        except RuntimeError as e:
            m = re.search(r"continue simulation: (\S+)", str(e))
            if not m:
                raise
            log.append("operator removes " + m.group(1))
            saved = fs.armed
            fs.armed = False
            n = len(fs.removed_dirs)
            fs.rmtree(m.group(1))
            del fs.removed_dirs[n:]  # removals by the operator are not removals by the script
            fs.armed = saved
    return False


def _steps(tree):
    return {p: v for p, v in tree.items() if p.endswith("/selected_plate")}


_PRE = {}


def _pre_rounds(ctx, cfg, fs, pipeline, mod, mode, batch):
    """the earlier, uninterrupted rounds: deterministic and the same on every explored path, so the in-memory file tree
    they leave behind is computed once per worker process and copied afterwards (replay on the real filesystem runs them)"""
    n = cfg.get("pre", 0)
    if not n:
        return
    key = (cfg["name"], mode, batch, n)
    if ctx.mode != "real" and key in _PRE:
        nodes, launches, nruns = _PRE[key]
        fs.nodes = dict(nodes)
        pipeline.launches = list(launches)
        pipeline.nruns = nruns
        return
    for _ in range(n):
        _invoke(mod, mode, batch)
    if ctx.mode != "real" and hasattr(fs, "nodes"):
        _PRE[key] = (dict(fs.nodes), list(pipeline.launches), pipeline.nruns)


def h_resume(ctx, cfg):
    mode, P = cfg["mode"], cfg["P"]
    batch = int(ctx.int("batch_size", 1, cfg["bmax"]))
    cleanup = []
    try:
        # ---- uninterrupted reference execution
        fs0 = _mkfs(ctx, None, "ref")
        cleanup.append(fs0)
        p0 = Pipeline(ctx, fs0, P, mode, lambda name: True)
        p0.allow = cfg.get("pre", 0) * cfg["bmax"]
        m0 = _load_script(ctx, fs0, p0)
        # earlier, uninterrupted invocations (prospective mode: one round per invocation) - not subject to interruption
        _pre_rounds(ctx, cfg, fs0, p0, m0, mode, batch)
        fs0.ticks = 0
        _invoke(m0, mode, batch)
        total = fs0.ticks
        ref_steps = [_steps(fs0.tree())]
        # an interruption after the last step of an invocation is followed by what would have been the operator's
        # next invocation anyway: the reference therefore also covers one further uninterrupted invocation
        for _ in range(cfg["crashes"]):
            _invoke(m0, mode, batch)
            ref_steps.append(_steps(fs0.tree()))
        ref_launch = {}
        for o, k in p0.launches:
            ctx.prove(o not in ref_launch, "uninterrupted run launches every step once")
            ref_launch[o] = k
        if mode == "retrospective":
            # every step starts from the screen its immediate predecessor produced (whatever the batch size and plate index)
            for (o_prev, k_prev), (o, k) in zip(p0.launches, p0.launches[1:]):
                prev_out = o_prev + "/" + k_prev["name"] + "/advanced_screen.h5"
                started_from = k["training_content"] if k["training"] is not None else k["screen_content"]
                ctx.prove(fs0.exists(prev_out) and started_from == fs0.read(prev_out),
                          "every step is started from the output screen of its immediate predecessor",
                          key="retrospective: step not started from its predecessor's output",
                          detail=lambda o=o, k=k, prev_out=prev_out: "step %s started from %s, predecessor wrote %s" % (o, k["training"] or k["screen"], prev_out))
            ctx.prove(len(p0.launches) == P, "an uninterrupted simulation of P plates takes exactly P steps",
                      key="retrospective: number of steps of the uninterrupted run")
        # ---- interrupted execution
        lo = 0
        if cfg.get("late"):
            # only interruptions within the last `late` steps of a long run (the earlier ones are those of the shorter runs)
            lo = max(0, total - cfg["late"] * (total // max(1, len(p0.launches))))
        c1 = ctx.int("crash_at", lo, total - 1)
        state = dict(phase=1)

        def hook(tick, what):
            if state["phase"] == 1:
                return ctx.is_true(c1 == tick)
            if state["phase"] == 2 and cfg["crashes"] == 2:
                return ctx.is_true(state["c2"] == tick)
            return False
        fs = _mkfs(ctx, hook, "run")
        cleanup.append(fs)
        pl = Pipeline(ctx, fs, P, mode, lambda name: ctx.is_true(ctx.bool("pub_" + name)))
        pl.allow = cfg.get("pre", 0) * cfg["bmax"]
        mod = _load_script(ctx, fs, pl)
        log = []
        # the steps that are complete at the instant of an interruption (before any handler of the script has run)
        at_crash = set()

        def complete_now():
            return {o for o, k in pl.launches if fs.exists(o + "/" + k["name"] + "/screen_metadata.json")
                    and fs.exists(o + "/" + k["name"] + "/selected_plate")}
        fs.on_crash = lambda: at_crash.update(complete_now())
        if cfg.get("pre", 0):
            saved_armed, fs.armed = fs.armed, False
            _pre_rounds(ctx, cfg, fs, pl, mod, mode, batch)
            fs.armed = saved_armed
            fs.ticks = 0
        try:
            _invoke(mod, mode, batch)
            ctx.assume(False)  # the interruption point lies beyond this execution
        except Crash as cr:
            log.append("interrupted at: " + str(cr))
        gone = sorted(at_crash - complete_now())
        ctx.prove(not gone, "no completed step is ever deleted (nor by what the script does while it is being interrupted)",
                  key="%s: completed step deleted by the script" % mode, detail=lambda: "; ".join(log)[:300] + " | deleted: %s" % gone[:2])
        completed_before = complete_now() | at_crash
        if cfg["crashes"] == 2:
            state["phase"] = 2
            state["c2"] = ctx.int("crash_at2", 0, total)
            fs.ticks = 0
            fs.armed = True
            try:
                ok = _recover(ctx, lambda: _load_script(ctx, fs, pl), fs, mode, batch, log)
                ctx.assume(False)
            except Crash as cr:
                log.append("interrupted again at: " + str(cr))
            completed_before = completed_before | at_crash
        state["phase"] = 3
        n_before = len(pl.launches)
        removed_before = len(fs.removed_dirs)
        ok = _recover(ctx, lambda: _load_script(ctx, fs, pl), fs, mode, batch, log)
        ctx.prove(ok, "the script can be restarted after the interruption (removing only directories it names)",
                  key="%s: restart does not terminate" % mode)
        det = lambda: "; ".join(log)[:400]
        # no completed step is deleted by the script
        lost = [d for d in fs.removed_dirs if any(d == o or o.startswith(d + "/") or d.startswith(o + "/") and False for o in completed_before)]
        ctx.prove(not lost, "no completed step is ever deleted", key="%s: completed step deleted by the script" % mode, detail=det)
        # every step launched after the restart has the inputs of the uninterrupted run
        for o, k in pl.launches[n_before:]:
            same = o in ref_launch and ref_launch[o] == k
            ctx.prove(same, "every step executed after the restart receives the same inputs as in the uninterrupted run",
                      key="%s: resumed step launched with different inputs" % mode,
                      detail=lambda o=o, k=k: "%s | step %s got %s expected %s" % (det(), o, {x: k[x] for x in k if ref_launch.get(o, {}).get(x) != k[x]}, "a step of the uninterrupted run" if o in ref_launch else "no such step"))
            ctx.prove(o not in completed_before, "no completed step is executed twice", key="%s: completed step executed twice" % mode, detail=det)
        got_steps = _steps(fs.tree())
        ref_steps = next((r for r in ref_steps[1:] if r == got_steps), ref_steps[0])
        ctx.prove(got_steps == ref_steps, "after the restart the simulation contains exactly the steps of the uninterrupted run, each with the same recorded selection",
                  key="%s: recorded selections differ from the uninterrupted run" % mode,
                  detail=lambda: "%s | missing=%s extra=%s differing=%s" % (det(), sorted(set(ref_steps) - set(got_steps))[:3], sorted(set(got_steps) - set(ref_steps))[:3],
                                                                         sorted(p for p in got_steps if p in ref_steps and got_steps[p] != ref_steps[p])[:3]))
        return log
    finally:
        if ctx.mode == "real":
            for f in cleanup:
                shutil.rmtree(f.root, ignore_errors=True)


def run(ctx, cfg):
    return h_resume(ctx, cfg)
