"""C16 - the k-per-sample policy yields batches with zero or exactly k plates per sample."""
from .common import concrete_screen

PROPERTY = "C16"
LEVEL = "model_checking"
FUNCTIONS = [
    "batchie.policies.k_per_sample.KPerSamplePlatePolicy.filter_eligible_plates",
    "batchie.scoring.main.select_next_plate", "batchie.scoring.main.ChunkedScoresHolder.plate_id_with_minimum_score",
    "batchie.data.Screen.plates / get_plate / Plate.plate_id",
]
BOUNDS = {
    "quick": "k symbolic and unbounded (k>=1); P<=5 single-sample plates over <=3 samples with a solver-chosen assignment, every observed pattern of one plate, symbolic scores (every allowed plate can be the minimum) held in ascending, descending or rotated plate-id order (P<=4), selection histories run with the real select_next_plate until nothing is allowed",
    "thorough": "P<=7 plates, 3 samples",
}
ASSUMPTIONS = [
    "selection histories start from an empty batch (the property speaks of selections within a batch)",
    "scores are arbitrary reals (ties broken by argmin order), one per plate",
]
OUTSIDE = ["more plates than the bound"]
RULE = "plate-to-sample assignment and the winner of each selection are solver-enumerated; k stays symbolic and is split into ranges only by the comparisons the policy makes."
BUDGET_S = {"quick": 600, "thorough": 3000}
TASK_QUOTA = 80


def configs(tier, seed):
    q = tier == "quick"
    out = []
    for P in ((2, 3, 4, 5) if q else (2, 3, 4, 5, 6, 7)):
        out.append(dict(name="histories P=%d" % P, h="hist", P=P, S=min(3, P), orders=P <= (4 if q else 5)))
    out.append(dict(name="multi-sample plate refused", h="multi"))
    return out


def fixtures(cfg):
    v = dict(k=2, firstobs=False)
    for i in range(6):
        v["smp%d" % i] = [0, 0, 1, 1, 0, 2][i]
        v["sc%d" % i] = [0.5, 0.1, 0.3, 0.2, 0.05, 0.9][i]
    return [v, dict(v, k=1), dict(v, k=3, smp2=0), dict(v, k=2, firstobs=True)]


def h_hist(ctx, cfg):
    np = ctx.np
    sm = ctx.mod("batchie.scoring.main")
    kp = ctx.mod("batchie.policies.k_per_sample")
    P, S = cfg["P"], cfg["S"]
    k = ctx.int("k", 1)
    smp = [int(ctx.int("smp%d" % i, 0, S - 1)) for i in range(P)]
    # symmetry cut: samples are introduced in order (plate 0 has sample 0, a new sample index only after all smaller ones)
    seen = -1
    for x in smp:
        if x > seen + 1:
            ctx.assume(False)
        seen = max(seen, x)
    first_observed = ctx.is_true(ctx.bool("firstobs"))
    rows = [("s%d" % smp[i], "a", float(i + 1), "b", 1.0, "p%d" % i) for i in range(P)]
    mask = [first_observed and i == 0 for i in range(P)]
    screen = concrete_screen(ctx, rows, observations=[0.5] * P, mask=mask)
    pid = dict(zip(screen.plate_mapping[0].tolist(), [int(x) for x in screen.plate_mapping[1].tolist()]))
    sample_of = {pid["p%d" % i]: smp[i] for i in range(P)}
    unobs = sorted(pid["p%d" % i] for i in range(P) if not mask[i])
    scores = sm.ChunkedScoresHolder(len(unobs))
    # the holder's entries in ascending, descending or rotated plate-id order (chunk files may be combined in any order)
    order = int(ctx.int("order", 0, 2)) if cfg.get("orders", True) and len(unobs) >= 2 else 0
    seq = list(unobs) if order == 0 else list(unobs)[::-1] if order == 1 else list(unobs)[1:] + list(unobs)[:1]
    for p in seq:
        scores.add_score(p, ctx.real("sc%d" % p))
    policy = kp.KPerSamplePlatePolicy(k)
    plates = {int(p.plate_id): p for p in screen.plates}
    batch = []
    history = []
    for step in range(P + 1):
        remaining = [p for p in unobs if p not in batch]
        allowed = policy.filter_eligible_plates(batch_plates=[plates[b] for b in batch],
                                                unobserved_plates=[plates[p] for p in remaining], rng=ctx.rng("Q"))
        allowed = sorted(int(p.plate_id) for p in allowed)
        ctx.prove(all(a in remaining for a in allowed), "allowed plates are unobserved plates not yet in the batch")
        count = {}
        for b in batch:
            count[sample_of[b]] = count.get(sample_of[b], 0) + 1
        incomplete = [s for s, c in count.items() if ctx.is_true(c < k)]
        ctx.prove(len(incomplete) <= 1, "every batch prefix has at most one incomplete sample", key="two incomplete samples in a batch prefix")
        if incomplete:
            s0 = incomplete[0]
            ctx.prove(allowed == sorted(p for p in remaining if sample_of[p] == s0) and len(allowed) >= 1,
                      "while a sample has 1..k-1 plates in the batch exactly its remaining plates are allowed, and at least one is",
                      key="incomplete sample not (only) continued")
        else:
            for a in allowed:
                s = sample_of[a]
                ctx.prove(s not in count, "a completed sample is not re-opened")
                nrem = sum(1 for p in remaining if sample_of[p] == s)
                ctx.prove(nrem >= k, "a new sample is opened only if at least k of its plates remain", key="sample opened with fewer than k plates remaining")
        best = sm.select_next_plate(scores=scores, screen=screen, policy=policy, batch_plate_ids=list(batch), rng=ctx.rng("R"))
        if best is None:
            ctx.prove(not allowed, "selection stops only when no plate is allowed")
            break
        b = int(best.plate_id)
        ctx.prove(b in allowed, "the selected plate is one of the allowed plates", key="selected plate not allowed by the policy")
        batch.append(b)
        history.append(b)
        # a batch of m*k plates gives every sample zero or exactly k plates
        n = len(batch)
        cnt = {}
        for x in batch:
            cnt[sample_of[x]] = cnt.get(sample_of[x], 0) + 1
        multiple = ctx.is_true((n % k) == 0)
        if multiple:
            ctx.prove(all(ctx.is_true(c == k) for c in cnt.values()), "a batch of m*k plates gives each sample zero or exactly k plates",
                      key="batch of m*k plates with a sample that has neither 0 nor k plates")
    return history


def h_multi(ctx, cfg):
    kp = ctx.mod("batchie.policies.k_per_sample")
    rows = [("s1", "a", 1.0, "b", 1.0, "p0"), ("s2", "a", 2.0, "b", 1.0, "p0"), ("s1", "a", 3.0, "b", 1.0, "p1")]
    screen = concrete_screen(ctx, rows)
    policy = kp.KPerSamplePlatePolicy(ctx.int("k", 1))
    for where in ("batch", "unobserved"):
        try:
            ps = screen.plates
            multi = [p for p in ps if p.n_unique_samples > 1]
            single = [p for p in ps if p.n_unique_samples == 1]
            if where == "batch":
                policy.filter_eligible_plates(batch_plates=multi, unobserved_plates=single, rng=None)
            else:
                policy.filter_eligible_plates(batch_plates=[], unobserved_plates=ps, rng=None)
            ctx.fail("plate containing more than one sample accepted (%s)" % where)
        except ValueError:
            ctx.prove(True, "plates containing more than one sample are refused")
    return 1


def run(ctx, cfg):
    return {"hist": h_hist, "multi": h_multi}[cfg["h"]](ctx, cfg)
