"""C13 harness: see retro_ops.py (one driver, two sets of post-conditions)."""
from .retro_ops import op_configs, run_op
from .retro_common import fixture_values

PROPERTY = "C13"
LEVEL = "model_checking"
TASK_QUOTA = 60
BUDGET_S = {"quick": 600, "thorough": 3000}
FUNCTIONS = [
    "batchie.retrospective.SampleSegregatingPermutationPlateGenerator / PairwisePlateGenerator._generate_plates",
    "batchie.retrospective.SparseCoverPlateGenerator._generate_and_unmask_initial_plate",
    "batchie.data.filter_dataset_to_treatments_that_appear_in_at_least_one_combo",
    "batchie.retrospective.FixedSizeSmoother / OptimalSizeSmoother / NPlatePerCellLineSmoother / MergeMinPlateSmoother / MergeTopBottomPlateSmoother / BatchieEnsemblePlateSmoother._smooth_plates",
    "batchie.data.Plate.merge", "batchie.core.RetrospectivePlateGenerator.generate_plates / RetrospectivePlateSmoother.smooth_plates",
]
BOUNDS = {
    "quick": "six hand-written screen families of 4-7 rows (several samples at or below the size limit, samples with exactly the limit, single-agent rows, one or many plates); every integer parameter in its small range; every value the random generator can return; plus two generated structures (9 rows on 5+1 plates and 10 rows on 6 plates, repeated plate sizes, rows of a plate not adjacent) under every operation; pairwise generator on five samples x all pairs of four drugs (30 rows, one legal draw); six smoothers on a screen with a single unobserved plate (family S1)",
    "thorough": "six hand-written families with up to 7 rows per operation plus 64 generated screen structures (up to 12 rows on up to 7 plates; operations whose draws are permutations of all rows on at most 6-7 rows of 24 structures) under every operation",
}
ASSUMPTIONS = [
    "rng.permutation / rng.choice return an arbitrary permutation / subset / element (every one explored)",
    "names/doses concrete per family; row identity through symbolic observation tags",
]
OUTSIDE = ["screens above the row bound", "operations that raise"]
RULE = "parameters and every random draw are solver-enumerated."


def configs(tier, seed):
    return [c for c in op_configs(tier) if c["op"] in ("segr", "pair", "mergemin", "topbottom", "fixed", "optimal", "nper", "ensemble", "cover", "combofilter")]


def fixtures(cfg):
    return fixture_values()


def run(ctx, cfg):
    return run_op(ctx, cfg, False, True)
