"""C18 - randomised steps are deterministic in their inputs and the given generator/seed.

Decided as information flow over named random streams: R = the generator handed in (or derived from --seed),
G = the process-global numpy state (np.random.*), E = OS entropy (default_rng() without a seed).  An operation
whose every draw comes from R and that neither draws from G/E nor reseeds G is a function of (inputs, R)."""
import argparse
import sys

from .common import cli_main, cli_argv, concrete_screen
from .retro_ops import op_configs, run_op
from .retro_common import fixture_values, FAMILIES, build

PROPERTY = "C18"
LEVEL = "model_checking"
FUNCTIONS = [
    "every randomised entry point of batchie.retrospective (3 plate generators, 6 smoothers, SparseCoverPlateGenerator, both hold-out functions)",
    "batchie.scoring.rand.RandomScorer.score", "batchie.scoring.gaussian_dbal.dbal_fast_gauss_scoring_vectorized (sub-sampled regime)",
    "batchie.policies.k_per_sample.KPerSamplePlatePolicy.filter_eligible_plates", "batchie.scoring.main.score_chunk / select_next_plate",
    "batchie.sampling.sample + one full sweep of LegacySparseDrugComboImpl.mcmc_step and LegacySparseDrugComboInteractionImpl.mcmc_step",
    "batchie.fast_mvn.sample_mvn_from_precision", "batchie.cli.argument_parsing.get_prng_from_seed_argument",
    "batchie.cli.prepare_retrospective_simulation.main / calculate_scores.main / select_next_plate.main / train_model.main (through get_parser / get_args with sys.argv set; class lookup by name answered from the loaded modules)",
]
BOUNDS = {
    "quick": "the small shapes of C05/C06/C08/C11: every retrospective operation on its family screens (two generated structures included), scorers on 3 plates, one Gibbs sweep of each shipped model on 3 observations (embedding size 1, a sample and a treatment without data), the four CLI entry points; five retrospective operations repeated in one process after an unrelated call (call-history independence); np.empty yields arbitrary contents (fresh unknowns / a changing garbage pattern on replays)",
    "thorough": "same with the larger C11 families and the 64 generated screen structures of C11/C13",
}
ASSUMPTIONS = [
    "numpy generators are modelled as named streams of fresh unknowns; every draw is logged with its stream and the batchie call site",
    "an unseeded default_rng() is reported at its creation site when at least one draw is taken from it",
    "iteration order of sets of strings (it depends on the process's hash salt): sets that the code under test builds by calling set(...) iterate in a harness-chosen order and seven retrospective operations are run under two orders with identically behaving generators; set displays / comprehensions and dict orders are not covered",
]
OUTSIDE = ["bit-level reproducibility of numpy generators across numpy versions", "hash-randomisation effects other than through set(...) of strings"]
RULE = "each path is one execution of an entry point with all random draws symbolic; a finding is a draw whose stream is not the given generator."
BUDGET_S = {"quick": 600, "thorough": 3000}
TASK_QUOTA = 60
VALIDATE_OUTCOME = False  # several findings per run are reported in stream order, which differs between model and real numpy


def configs(tier, seed):
    out = []
    for c in op_configs(tier):
        if c["op"] in ("badfraction", "combofilter"):
            continue
        out.append(dict(c, name="retro " + c["name"], h="retro"))
    for op, fam, R in (("holdout", "A", 7), ("rholdout", "A", 4), ("perm", "A", 5), ("segr", "B", 5), ("pair", "D", 5), ("fixed", "C", 6), ("cover", "A", 4)):
        out.append(dict(name="set-order independence: %s %s" % (op, fam), h="setorder", op=op, fam=fam, R=R))
    # the same operation later in the same process (another call with another generator in between): same inputs, same seed,
    # same result - whatever objects of the same classes did earlier
    for op, fam, R in (("cover", "A", 4), ("holdout", "A", 5), ("perm", "A", 4), ("segr", "B", 4), ("fixed", "C", 5)):
        out.append(dict(name="call-history independence: %s %s" % (op, fam), h="setorder", op=op, fam=fam, R=R, history=True))
    out += [dict(name="random scorer", h="rand_scorer"), dict(name="dbal sub-sampling", h="dbal"), dict(name="dbal scorer reused", h="dbal_reuse"), dict(name="model object trained twice", h="resample"),
            dict(name="policy + select_next_plate", h="select"), dict(name="seed argument", h="seedarg"),
            dict(name="gibbs sparse_combo", h="gibbs", model="combo"), dict(name="gibbs interaction", h="gibbs", model="inter"),
            dict(name="mvn draw", h="mvn"),
            dict(name="cli calculate_scores", h="cli_scores"), dict(name="cli select_next_plate", h="cli_select"),
            dict(name="cli prepare_retrospective_simulation", h="cli_prepare"), dict(name="cli train_model", h="cli_train", model="combo")]
    return out


def fixtures(cfg):
    return fixture_values()[:1]


# ----------------------------------------------------------------------------------------------- stream accounting
class _RealRecorder:
    """replay on the real numpy: record uses of the process-global generator and unseeded default_rng()"""
    NAMES = ("normal", "gamma", "random", "choice", "permutation", "rand", "randn", "standard_normal", "seed", "shuffle", "uniform",
             "randint", "random_sample", "beta", "exponential")

    def __init__(self):
        import numpy
        self.np = numpy
        self.log = []
        self.saved = {}

    def __enter__(self):
        from ..symlibs import _callsite
        # batchie's class lookup (introspection.get_class) imports every module of the package; libraries draw random numbers
        # while they are imported (scipy.stats builds doc examples): import everything before the recording starts
        import importlib
        import pkgutil
        import batchie
        for info in pkgutil.walk_packages(batchie.__path__, "batchie."):
            try:
                importlib.import_module(info.name)
            except Exception:
                pass
        rnd = self.np.random
        for n in self.NAMES:
            if hasattr(rnd, n):
                orig = getattr(rnd, n)
                self.saved[n] = orig

                def wrap(*a, _o=orig, _n=n, **k):
                    self.log.append(dict(stream="G", method=_n, site=_callsite()))
                    return _o(*a, **k)
                setattr(rnd, n, wrap)
        od = rnd.default_rng
        self.saved["default_rng"] = od

        rec = self

        class _Proxy:
            """an unseeded generator counts only once something is drawn from it"""

            def __init__(self, g, site):
                self._g, self._site, self._hit = g, site, False

            def __getattr__(self, name):
                attr = getattr(self._g, name)
                if callable(attr) and not name.startswith("_") and name not in ("bit_generator",):
                    def call(*a, **k):
                        if not self._hit:
                            self._hit = True
                            rec.log.append(dict(stream="E", method="default_rng", site=self._site))
                        return attr(*a, **k)
                    return call
                return attr

        def drng(seed=None):
            if seed is None:
                return _Proxy(od(), _callsite())
            return od(seed)
        rnd.default_rng = drng
        # np.empty / np.empty_like promise nothing about the contents: hand out a garbage pattern that changes from call to
        # call instead of whatever the heap happens to hold (a result that reads such cells is then visibly not a function
        # of inputs and seed)
        npm = self.np
        self.saved_np = {"empty": npm.empty, "empty_like": npm.empty_like}
        calls = [0]

        def poison(a):
            calls[0] += 1
            if a.dtype.kind == "f" and a.size:
                a.reshape(-1)[...] = ((npm.arange(a.size) * 7919 + calls[0] * 104729) % 1009) / 100.0
            elif a.dtype.kind in "iu" and a.size:
                a.reshape(-1)[...] = (1000003 * calls[0] + npm.arange(a.size)) % 120
            return a
        npm.empty = lambda *a, _o=self.saved_np["empty"], **k: poison(_o(*a, **k))
        npm.empty_like = lambda *a, _o=self.saved_np["empty_like"], **k: poison(_o(*a, **k))
        return self

    def __exit__(self, *a):
        for n, o in self.saved.items():
            setattr(self.np.random, n, o)
        for n, o in getattr(self, "saved_np", {}).items():
            setattr(self.np, n, o)
        return False


class _Streams:
    """uniform view of 'which draws did not come from the given generator' in both modes"""

    def __init__(self, ctx):
        self.ctx = ctx
        self.rec = None

    def __enter__(self):
        if self.ctx.mode == "real":
            self.rec = _RealRecorder()
            self.rec.__enter__()
        else:
            self.start = len(self.ctx.eng.draws)
        return self

    def __exit__(self, *a):
        if self.rec is not None:
            self.rec.__exit__(*a)
        return False

    def offending(self):
        if self.rec is not None:
            return self.rec.log
        return [d for d in self.ctx.eng.draws[self.start:] if d["stream"] in ("G", "E")]

    def all_draws(self):
        return [] if self.rec is not None else self.ctx.eng.draws[self.start:]


def _judge(ctx, streams, what):
    bad = streams.offending()
    seen = set()
    for d in bad:
        if d["stream"] == "E":
            key = "E:%s:unseeded default_rng()" % d["site"].rsplit(":", 1)[0 if d["method"] == "default_rng" else 0]
            key = "E:%s:unseeded default_rng()" % d.get("created", d["site"])
        else:
            key = "G:%s:np.random.%s" % (d["site"], d["method"])
        if key in seen:
            continue
        seen.add(key)
        ctx.report("%s draws from %s instead of the generator it was given" % (
            what, "the process-global numpy state" if d["stream"] == "G" else "an unseeded (OS-entropy) generator"), key=key)
    ctx.prove(True, "%s: every other random draw comes from the given generator" % what)
    return len(seen)


# ----------------------------------------------------------------------------------------------- entry points
def h_retro(ctx, cfg):
    with _Streams(ctx) as st:
        run_op(ctx, cfg, False, False)
    return _judge(ctx, st, "retrospective preparation (%s)" % cfg["op"])


def _three_plates(ctx):
    rows = [("s1", "a", 1.0, "b", 1.0, "p0"), ("s1", "a", 2.0, "b", 1.0, "p1"), ("s2", "a", 1.0, "c", 1.0, "p2")]
    return concrete_screen(ctx, rows, observations=[0.5, 0.4, 0.3], mask=[False] * 3)


def h_rand_scorer(ctx, cfg):
    rand = ctx.mod("batchie.scoring.rand")
    sm = ctx.mod("batchie.scoring.main")
    screen = _three_plates(ctx)
    with _Streams(ctx) as st:
        h = sm.score_chunk(rand.RandomScorer(), None, screen, None, rng=ctx.rng("R"), n_chunks=1, chunk_index=0)
    ctx.prove(h.current_index == 3, "random scorer scores every candidate plate")
    # in chunks: every chunk draws from the generator it is given, in the state it is given - not from generators spawned
    # off it (numpy derives those from a hidden spawn counter of the seed sequence, not from the generator's state)
    for n_chunks in (2, 3):
        for c in range(n_chunks):
            g = ctx.rng("R%d_%d" % (n_chunks, c))
            with _Streams(ctx) as st2:
                hc = sm.score_chunk(rand.RandomScorer(), None, screen, None, rng=g, n_chunks=n_chunks, chunk_index=c)
            ctx.prove(not any(m == "spawn" for m, _ in g.log), "a chunk's scores are drawn from the generator passed in, not from a generator spawned off it",
                      key="score_chunk draws from a spawned generator")
            ctx.prove(g.count >= (1 if hc.current_index else 0), "a non-empty chunk consumes draws of the generator passed in",
                      key="score_chunk draws from a spawned generator")
            _judge(ctx, st2, "score_chunk (chunk %d of %d) with the random scorer" % (c, n_chunks))
    return _judge(ctx, st, "score_chunk with the random scorer")


def h_dbal(ctx, cfg):
    np = ctx.np
    gd = ctx.mod("batchie.scoring.gaussian_dbal")
    nt = 4
    preds = np.array([[[0.1 * (t + 1)] for t in range(nt)]], dtype=float)
    var = np.array([[[1.0] for t in range(nt)]], dtype=float)
    D = np.array([[0.0 if i == j else 1.0 + 0.1 * (i + j) for j in range(nt)] for i in range(nt)], dtype=float)
    with _Streams(ctx) as st:
        gd.dbal_fast_gauss_scoring_vectorized(preds, var, D, ctx.rng("R"), max_combos=2)
    return _judge(ctx, st, "DBAL triple sub-sampling")


def h_dbal_reuse(ctx, cfg):
    """one scorer object used for two rounds: the second round must behave like a fresh scorer given an identically
    seeded generator (output and number of draws consumed)"""
    from .c05 import _views, _theta_class
    np = ctx.np
    gd = ctx.mod("batchie.scoring.gaussian_dbal")
    core = ctx.mod("batchie.core")
    _Theta = _theta_class(core)
    _screen, _names, _pv = _views(ctx, [1, 2])
    dc = ctx.mod("batchie.distance_calculation")
    nt, sizes = 4, [1, 2]
    holder = core.ThetaHolder(n_thetas=nt)
    for t in range(nt):
        holder.add_theta(_Theta(np, [0.1 * (t + 1) + 0.05 * e * (t % 2) for e in range(3)], [1.0 + 0.5 * t] * 3))
    dm = dc.ChunkedDistanceMatrix(nt)
    for i in range(nt):
        for j in range(i):
            dm.add_value(i, j, 0.3 + 0.1 * i + 0.05 * j)
    plates = {4: _pv[0], 9: _pv[1]}
    with _Streams(ctx) as st:
        scorer = gd.GaussianDBALScorer(max_chunk=5, max_triples=2)
        scorer.score(plates=plates, distance_matrix=dm, samples=holder, rng=ctx.rng("R"), progress_bar=False)
        g2 = ctx.rng("R2")
        second = scorer.score(plates=plates, distance_matrix=dm, samples=holder, rng=g2, progress_bar=False)
        twin = ctx.replay_rng(g2, "R2twin")
        fresh = gd.GaussianDBALScorer(max_chunk=5, max_triples=2).score(plates=plates, distance_matrix=dm, samples=holder, rng=twin, progress_bar=False)
    same = sorted(second) == sorted(fresh)
    for k in fresh:
        if k in second:
            same = ctx.And(same, ctx.eq(second[k], fresh[k]))
    ctx.prove(same, "a reused scorer gives the output of a fresh scorer with an identically seeded generator",
              key="DBAL scorer output depends on earlier calls")
    ctx.prove(g2.count == twin.count, "a reused scorer consumes the same draws from its generator as a fresh one",
              key="DBAL scorer output depends on earlier calls")
    return _judge(ctx, st, "DBAL scorer reuse")


def h_resample(ctx, cfg):
    """model training is a function of (inputs, seed) also when the same model object is trained again: the second
    run uses the generator of its own seed, like a fresh model given that seed"""
    core = ctx.mod("batchie.core")
    sampling = ctx.mod("batchie.sampling")

    class M(core.MCMCModel):  # the generator protocol of the shipped models: set_rng stores, .rng returns
        def __init__(self, rng=None):
            self._rng = rng
            self.x = None

        def reset_model(self):
            self.x = None

        def set_rng(self, rng):
            self._rng = rng

        @property
        def rng(self):
            return self._rng

        def step(self):
            self.x = self.rng.normal()

        def get_model_state(self):
            return self.x
    s1, s2 = ctx.int("seed", 0), ctx.int("seed2", 0)
    kw = dict(n_chains=2, chain_index=1, n_burnin=1, thin=1)
    with _Streams(ctx) as st:
        m = M()
        sampling.sample(m, core.ThetaHolder(n_thetas=2), seed=s1, **kw)
        g1 = m.rng
        r2 = sampling.sample(m, core.ThetaHolder(n_thetas=2), seed=s2, **kw)
        g2 = m.rng
        fresh = M()
        r3 = sampling.sample(fresh, core.ThetaHolder(n_thetas=2), seed=s2, **kw)
        pre = M(rng=ctx.rng("P"))   # a model constructed with a generator of its own: sample() still installs the seed's
        r4 = sampling.sample(pre, core.ThetaHolder(n_thetas=2), seed=s2, **kw)
    key = "sampling.sample output depends on the model object's history"
    if ctx.mode == "real":
        ctx.prove(list(r2.thetas) == list(r3.thetas), "a model trained again with seed s gives the samples of a fresh model trained with seed s", key=key)
        ctx.prove(list(r4.thetas) == list(r3.thetas), "a model constructed with its own generator, trained with seed s, gives the samples of seed s", key=key)
    else:
        for what, g in (("trained again", g2), ("constructed with a generator", pre.rng)):
            tok, want = g.token, fresh.rng.token
            ok = g is not g1 and tok is not None and want is not None and len(tok) == len(want) and tok[0] == want[0]
            if ok:
                ok = ctx.And(*[tok[i] == want[i] for i in range(1, len(tok))])
            ctx.prove(ok, "a model %s draws, when trained with seed s, from the generator derived from s" % what, key=key)
            ctx.prove(g.ndraws == fresh.rng.ndraws, "and takes the same number of draws from it as a fresh model")
    return _judge(ctx, st, "model training (same model object trained twice)")


def h_setorder(ctx, cfg):
    """the result does not depend on the order in which a set of strings happens to iterate (that order changes with the
    interpreter's hash salt, i.e. from process to process): the operation is run under two iteration orders with
    identically behaving generators and must give the same screens"""
    from .. import ordset
    from .retro_common import row_table
    np = ctx.np
    retro = ctx.mod("batchie.retrospective")
    screen, rows, tags, mask = build(ctx, cfg["fam"], cfg["R"], all_observed=(cfg["op"] == "cover"))
    patched = []
    if ctx.mode == "real":  # the real modules resolve `set` through their globals first
        import sys
        for name, mod in list(sys.modules.items()):
            if name.startswith("batchie.") and not hasattr(mod, "set"):
                mod.set = ordset.OrderSet
                patched.append(mod)

    def once(g):
        op = cfg["op"]
        if op == "holdout":
            return retro.create_plate_balanced_holdout_set_among_masked_plates(screen, 0.5, g)
        if op == "rholdout":
            return retro.create_random_holdout(screen, 0.5, g)
        if op == "perm":
            return (retro.PlatePermutationPlateGenerator().generate_plates(screen, g),)
        if op == "segr":
            return (retro.SampleSegregatingPermutationPlateGenerator(max_plate_size=2).generate_plates(screen, g),)
        if op == "pair":
            return (retro.PairwisePlateGenerator(subset_size=1, anchor_size=0).generate_plates(screen, g),)
        if op == "fixed":
            return (retro.FixedSizeSmoother(plate_size=1).smooth_plates(screen, g),)
        if op == "cover":
            return (retro.SparseCoverPlateGenerator(reveal_single_treatment_experiments=False).generate_and_unmask_initial_plate(screen, g),)
        raise ValueError(op)
    try:
        with _Streams(ctx) as st:
            ordset.ORDER[0] = "asc"
            g1 = ctx.rng("R")
            try:
                first = once(g1)
            except ValueError:
                return "refused"
            if cfg.get("history"):
                try:
                    once(ctx.rng("W"))  # an unrelated call in between, with draws of its own
                except ValueError:
                    pass
            else:
                ordset.ORDER[0] = "desc"
            second = once(ctx.replay_rng(g1, "Rtwin"))
    finally:
        ordset.ORDER[0] = "asc"
        for mod in patched:
            del mod.set
    same = len(first) == len(second)
    for a, b in zip(first, second):
        ta, tb = row_table(a), row_table(b)
        for f in ("sn", "tn", "td", "pn", "mask"):
            same = same and ta[f] == tb[f]
        same = ctx.And(same, all_eq_list(ctx, ta["obs"], tb["obs"]))
    if cfg.get("history"):
        ctx.prove(same, "the result is a function of the inputs and the generator: the same call later in the same process gives the same result",
                  key="result depends on earlier calls in the process")
        return _judge(ctx, st, "retrospective preparation (%s, repeated in one process)" % cfg["op"])
    ctx.prove(same, "the result does not depend on the iteration order of a set of strings (hash salt of the process)",
              key="result depends on set iteration order")
    return _judge(ctx, st, "retrospective preparation (%s, two set orders)" % cfg["op"])


def all_eq_list(ctx, a, b):
    if len(a) != len(b):
        return False
    r = True
    for x, y in zip(a, b):
        r = ctx.And(r, ctx.eq(x, y))
    return r


def h_select(ctx, cfg):
    sm = ctx.mod("batchie.scoring.main")
    kp = ctx.mod("batchie.policies.k_per_sample")
    screen = _three_plates(ctx)
    scores = sm.ChunkedScoresHolder(3)
    for p in range(3):
        scores.add_score(p, 0.1 * (3 - p))
    with _Streams(ctx) as st:
        sm.select_next_plate(scores, screen, kp.KPerSamplePlatePolicy(1), batch_plate_ids=[0], rng=ctx.rng("R"))
    return _judge(ctx, st, "policy filtering / select_next_plate")


def h_seedarg(ctx, cfg):
    ap = ctx.mod("batchie.cli.argument_parsing")
    seed = ctx.int("seed", 0, 5)  # (bounded: a memoising implementation hashes the seed, which enumerates its values)
    with _Streams(ctx) as st:
        g1 = ap.get_prng_from_seed_argument(argparse.Namespace(seed=seed))
        fresh_state = g1.bit_generator.state if ctx.mode == "real" else None
        g1.normal()  # the first generator is used before the second request for the same seed
        g2 = ap.get_prng_from_seed_argument(argparse.Namespace(seed=seed))
    if ctx.mode == "real":
        ctx.prove(g2.bit_generator.state == fresh_state, "--seed determines the generator: every request gets a fresh generator of that seed",
                  key="--seed: generator shared between requests")
    else:
        ctx.prove(g1.stream == "seeded" and g1.token == g2.token and g1.token[0] == "seed" and g1.token[1][0] == "state"
                  and ctx.is_true(g1.token[1][1] == seed), "--seed determines the generator")
        ctx.prove(g2 is not g1 and g2.count == 0, "--seed determines the generator: every request gets a fresh generator of that seed",
                  key="--seed: generator shared between requests")
    return _judge(ctx, st, "get_prng_from_seed_argument")


ROWS_G = [("s1", "a", 1.0, "b", 1.0, "p"), ("s1", "a", 1.0, "", 0.0, "p"), ("s2", "b", 1.0, "a", 1.0, "p"), ("s3", "c", 1.0, "c", 2.0, "q")]


def _train_screen(ctx):
    # the last row (sample s3, treatments c@1, c@2) is unobserved: a sample and treatments without data
    return concrete_screen(ctx, ROWS_G, observations=[0.5, 0.7, 0.2, 0.9], mask=[True, True, True, False])


class _CheapLapack:
    """stream accounting does not depend on the numbers: LAPACK results are unconstrained fresh values here
    (the contracts are exercised by C08), which keeps the path condition linear"""

    def __init__(self, ctx):
        self.ctx = ctx

    def __enter__(self):
        ctx = self.ctx
        if ctx.mode == "real":
            return self
        np = ctx.np
        self.la, self.sl = ctx.L.shims["numpy.linalg"], ctx.L.shims["scipy.linalg"]
        self.saved = (self.la.cholesky, self.sl.solve_triangular, self.sl.cho_solve)
        k = [0]

        def fresh_like(shape):
            n = 1
            for d in shape:
                n *= d
            vals = []
            for _ in range(n):
                k[0] += 1
                vals.append(ctx.real("lapack%d" % k[0]))
            return np.array(vals, dtype=float).reshape(shape)
        self.la.cholesky = lambda Q: fresh_like(Q.shape)
        self.sl.solve_triangular = lambda A, b, lower=False, **kw: fresh_like(b.shape)
        self.sl.cho_solve = lambda cl, b, **kw: fresh_like(b.shape)
        return self

    def __exit__(self, *a):
        if self.ctx.mode != "real":
            self.la.cholesky, self.sl.solve_triangular, self.sl.cho_solve = self.saved
        return False


def h_gibbs(ctx, cfg):
    data = ctx.mod("batchie.data")
    core = ctx.mod("batchie.core")
    sampling = ctx.mod("batchie.sampling")
    screen = _train_screen(ctx)
    es = data.ExperimentSpace.from_screen(screen)
    if cfg["model"] == "combo":
        model = ctx.mod("batchie.models.sparse_combo").SparseDrugCombo(experiment_space=es, n_embedding_dimensions=1)
    else:
        model = ctx.mod("batchie.models.sparse_combo_interaction").SparseDrugComboInteraction(experiment_space=es, n_embedding_dimensions=1)
    model.add_observations(screen.subset_observed())
    with _Streams(ctx) as st, _CheapLapack(ctx):
        sampling.sample(model, core.ThetaHolder(n_thetas=1), seed=3, n_chains=2, chain_index=1, n_burnin=1, thin=1)
    return _judge(ctx, st, "model training (%s)" % cfg["model"])


def h_mvn(ctx, cfg):
    np = ctx.np
    mvn = ctx.mod("batchie.fast_mvn")
    Q = np.array([[2.0, 0.5], [0.5, 1.0]], dtype=float)
    with _Streams(ctx) as st:
        mvn.sample_mvn_from_precision(Q, mu_part=np.array([0.1, 0.2], dtype=float), rng=ctx.rng("R"))
    return _judge(ctx, st, "sample_mvn_from_precision with a generator")


def _save_inputs(ctx, screen):
    np = ctx.np
    core = ctx.mod("batchie.core")
    sc = ctx.mod("batchie.models.sparse_combo")
    dc = ctx.mod("batchie.distance_calculation")
    sfn = ctx.tmp("screen.h5")
    screen.save_h5(sfn)
    holder = core.ThetaHolder(n_thetas=3)
    nS, nT = screen.sample_space_size, screen.treatment_space_size
    for t in range(3):
        holder.add_theta(sc.SparseDrugComboMCMCSample(
            W=np.array([[0.1 * (t + 1)]] * nS, dtype=float), W0=np.array([0.0] * nS, dtype=float), V2=np.array([[0.2]] * nT, dtype=float),
            V1=np.array([[0.3]] * nT, dtype=float), V0=np.array([0.0] * nT, dtype=float), alpha=0.5 + t, precision=1.0))
    tfn = ctx.tmp("thetas.h5")
    holder.save_h5(tfn)
    dm = dc.ChunkedDistanceMatrix(3)
    for i in range(3):
        for j in range(i):
            dm.add_value(i, j, 0.5 + 0.1 * i)
    dfn = ctx.tmp("dist.h5")
    dm.save(dfn)
    return sfn, tfn, dfn


def h_cli_scores(ctx, cfg):
    rand = ctx.mod("batchie.scoring.rand")
    screen = _three_plates(ctx)
    sfn, tfn, dfn = _save_inputs(ctx, screen)
    with _Streams(ctx) as st:
        cli_argv(ctx, "batchie.cli.calculate_scores", ["--data", sfn, "--thetas", tfn, "--distance-matrix", dfn, "--scorer", "RandomScorer",
                                                       "--output", ctx.tmp("scores.h5"), "--seed", 7])
    return _judge(ctx, st, "calculate_scores --seed")


def h_cli_select(ctx, cfg):
    sm = ctx.mod("batchie.scoring.main")
    kp = ctx.mod("batchie.policies.k_per_sample")
    screen = _three_plates(ctx)
    sfn, tfn, dfn = _save_inputs(ctx, screen)
    h = sm.ChunkedScoresHolder(3)
    for p in range(3):
        h.add_score(p, 0.3 - 0.1 * p)
    scf = ctx.tmp("sc.h5")
    h.save_h5(scf)
    with _Streams(ctx) as st:
        cli_argv(ctx, "batchie.cli.select_next_plate", ["--data", sfn, "--policy", "KPerSamplePlatePolicy", "--policy-param", "k=1", "--scores", scf,
                                                        "--output", ctx.tmp("sel"), "--seed", 7])
    return _judge(ctx, st, "select_next_plate --seed")


def h_cli_prepare(ctx, cfg):
    retro = ctx.mod("batchie.retrospective")
    rows = FAMILIES["A"][:5]
    screen = concrete_screen(ctx, rows, observations=[0.1 * (i + 1) for i in range(5)])
    sfn = ctx.tmp("full.h5")
    screen.save_h5(sfn)
    with _Streams(ctx) as st:
        cli_argv(ctx, "batchie.cli.prepare_retrospective_simulation", [
            "--data", sfn, "--seed", 11, "--holdout-fraction", 0.5,
            "--initial-plate-generator", "SparseCoverPlateGenerator", "--initial-plate-generator-param", "reveal_single_treatment_experiments=false",
            "--plate-generator", "SampleSegregatingPermutationPlateGenerator", "--plate-generator-param", "max_plate_size=2",
            "--plate-smoother", "FixedSizeSmoother", "--plate-smoother-param", "plate_size=1",
            "--training-output", ctx.tmp("train.h5"), "--test-output", ctx.tmp("test.h5")])
        draws = st.all_draws()
    if ctx.mode != "real":
        toks = {str(d.get("token")) for d in draws}
        ctx.prove(all(d["stream"] in ("seeded", "G", "E") for d in draws), "preparation draws only from generators it created")
    return _judge(ctx, st, "prepare_retrospective_simulation --seed")


def h_cli_train(ctx, cfg):
    sc = ctx.mod("batchie.models.sparse_combo")
    screen = _train_screen(ctx)
    sfn = ctx.tmp("train.h5")
    screen.save_h5(sfn)
    with _Streams(ctx) as st, _CheapLapack(ctx):
        cli_argv(ctx, "batchie.cli.train_model", ["--data", sfn, "--model", "SparseDrugCombo", "--model-param", "n_embedding_dimensions=1",
                                                  "--output", ctx.tmp("thetas.h5"), "--n-samples", 1, "--n-burnin", 0, "--thin", 1, "--n-chains", 1,
                                                  "--chain-index", 0, "--seed", 5])
    return _judge(ctx, st, "train_model --seed")


def run(ctx, cfg):
    return {"retro": h_retro, "rand_scorer": h_rand_scorer, "dbal": h_dbal, "select": h_select, "seedarg": h_seedarg,
            "gibbs": h_gibbs, "mvn": h_mvn, "dbal_reuse": h_dbal_reuse, "resample": h_resample, "setorder": h_setorder, "cli_scores": h_cli_scores, "cli_select": h_cli_select,
            "cli_prepare": h_cli_prepare, "cli_train": h_cli_train}[cfg["h"]](ctx, cfg)
