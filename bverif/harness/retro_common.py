"""Shared driver for C11 / C13 / C18: retrospective preparation operations on a bounded screen family."""
import z3

from .common import concrete_screen
from .. import engine as E

# (sample, t1, d1, t2, d2, plate); plate "obs*" is observed
FAMILIES = {
    # two samples, three single-sample unobserved plates, one observed plate, a single-agent row, a duplicate condition
    "A": [("s1", "a", 1.0, "b", 1.0, "obs"), ("s1", "a", 1.0, "c", 1.0, "u1"), ("s1", "b", 1.0, "c", 1.0, "u1"),
          ("s2", "a", 1.0, "b", 1.0, "u2"), ("s1", "c", 1.0, "", 0.0, "u3"), ("s2", "a", 1.0, "b", 1.0, "u4"),
          ("s2", "b", 1.0, "c", 1.0, "u2")],
    # three small samples (each at or below typical size limits), no observed plate
    "B": [("s1", "a", 1.0, "b", 1.0, "u1"), ("s2", "a", 1.0, "b", 1.0, "u2"), ("s3", "a", 1.0, "c", 1.0, "u3"),
          ("s1", "b", 1.0, "c", 1.0, "u1"), ("s2", "b", 2.0, "c", 1.0, "u4"), ("s3", "a", 1.0, "", 0.0, "u3"),
          ("s1", "a", 2.0, "c", 1.0, "u5")],
    # one sample spread over several plates of different sizes (merge / size smoothers)
    "C": [("s1", "a", 1.0, "b", 1.0, "u1"), ("s1", "a", 1.0, "c", 1.0, "u2"), ("s1", "b", 1.0, "c", 1.0, "u2"),
          ("s1", "a", 2.0, "b", 1.0, "u3"), ("s1", "a", 2.0, "c", 1.0, "u3"), ("s1", "b", 2.0, "c", 1.0, "u3"),
          ("s2", "a", 1.0, "b", 1.0, "u4")],
    # fully combinatorial single-sample block for the pairwise generator
    "D": [("s1", "a", 1.0, "b", 1.0, "u1"), ("s1", "a", 1.0, "c", 1.0, "u1"), ("s1", "", 0.0, "", 0.0, "u1"),
          ("s1", "a", 1.0, "", 0.0, "u1"), ("s2", "a", 1.0, "b", 1.0, "u1"), ("s1", "b", 1.0, "c", 1.0, "u1"),
          ("s2", "c", 1.0, "", 0.0, "u1")],
    # one sample, five plates of sizes 1,1,1,1,3: the multiplicity of a plate size decides the optimal size
    "F": [("s1", "a", 1.0, "b", 1.0, "u1"), ("s1", "a", 1.0, "c", 1.0, "u2"), ("s1", "b", 1.0, "c", 1.0, "u3"),
          ("s1", "a", 2.0, "b", 1.0, "u4"), ("s1", "a", 2.0, "c", 1.0, "u5"), ("s1", "b", 2.0, "c", 1.0, "u5"),
          ("s1", "c", 2.0, "d", 1.0, "u5")],
    # three samples with combination rows, single-agent rows only for the sample that sorts last (ids of a sub-screen that
    # holds only the single-agent rows are numbered differently from those of the combination sub-screen)
    "H": [("s1", "a", 1.0, "b", 1.0, "u1"), ("s2", "a", 1.0, "b", 1.0, "u1"), ("s3", "a", 1.0, "b", 1.0, "u1"),
          ("s3", "a", 1.0, "", 0.0, "u1"), ("s1", "a", 1.0, "c", 1.0, "u1"), ("s3", "", 0.0, "b", 1.0, "u1"),
          ("s2", "b", 1.0, "c", 1.0, "u1")],
    # twelve samples with one or two experiments each: a generator that makes one plate per sample makes more than ten plates
    # (plate names "..._10", "..._11" next to "..._1")
    "M": [("s%02d" % (i % 12), "a", 1.0 + i // 12, "b", 1.0, "u%d" % (i % 3)) for i in range(14)],
    # 120 samples with one experiment each: more than a hundred generated plates ("..._100" next to "..._10")
    "M2": [("s%03d" % i, "a", 1.0, "b", 1.0, "u%d" % (i % 3)) for i in range(120)],
    # technical replicates: the same condition several times on one unobserved plate (and once more on another plate)
    "R": [("s1", "a", 1.0, "b", 1.0, "u1"), ("s1", "a", 1.0, "b", 1.0, "u1"), ("s1", "a", 1.0, "", 0.0, "u1"),
          ("s1", "a", 1.0, "", 0.0, "u1"), ("s2", "a", 1.0, "b", 1.0, "u2"), ("s1", "a", 1.0, "b", 1.0, "u2"),
          ("s2", "c", 1.0, "b", 1.0, "obs")],
    # an observed plate and ONE unobserved plate (three experiments of one sample): nothing to even out against
    "S1": [("s2", "a", 1.0, "b", 1.0, "obs"), ("s1", "a", 1.0, "b", 1.0, "u1"), ("s1", "a", 1.0, "c", 1.0, "u1"), ("s1", "b", 1.0, "c", 1.0, "u1")],
    # five samples, every pair of four drugs for each: more samples than treatment groups in the pairwise design
    "P": [("s%d" % (i // 6), x, 1.0, y, 1.0, "u1") for i, (x, y) in
          enumerate([(x, y) for _ in range(5) for x, y in (("a", "b"), ("a", "c"), ("a", "d"), ("b", "c"), ("b", "d"), ("c", "d"))])],
    # like A but with a vehicle-only (all-control) experiment and a zero-dose treatment among the unobserved rows
    "E": [("s1", "a", 1.0, "b", 1.0, "obs"), ("s1", "", 0.0, "", 0.0, "u1"), ("s1", "b", 1.0, "c", 1.0, "u1"),
          ("s2", "a", 1.0, "b", 1.0, "u2"), ("s2", "c", 0.0, "a", 1.0, "u2"), ("s1", "a", 1.0, "c", 1.0, "u3")],
}


def generated_family(k):
    """thorough tier: a screen structure drawn from a seeded generator (structure only - observation values, every
    parameter and every generator draw stay symbolic).  Unobserved plates hold one sample each; rows of a plate are not
    adjacent; sizes repeat; single-agent and vehicle-only rows, duplicate conditions and an optional observed plate occur."""
    import random
    r = random.Random(7919 * (k + 1))
    n_samples = r.choice((1, 2, 2, 3))
    big = k >= 32   # larger structures, used by the operations whose path count does not grow factorially
    n_plates = r.randint(2, 6 if big else 5)
    sizes = [r.choice((1, 1, 2, 2, 3, 4) if big else (1, 1, 2, 2, 3)) for _ in range(n_plates)]
    while sum(sizes) > (10 if big else 7):
        sizes[sizes.index(max(sizes))] -= 1
    sizes = [z for z in sizes if z > 0]
    rows = []
    for p, z in enumerate(sizes):
        smp = "s%d" % (1 + (p % n_samples if p < n_samples else r.randrange(n_samples)))
        for _ in range(z):
            rows.append((smp,) + _random_condition(r) + ("u%d" % (p + 1),))
    if r.random() < 0.5:
        smp = "s%d" % (1 + r.randrange(n_samples))
        for _ in range(r.choice((1, 2))):
            rows.append((smp,) + _random_condition(r) + ("obs",))
    r.shuffle(rows)
    return rows


def _random_condition(r):
    kind = r.random()
    t1, t2 = r.sample("abcd", 2)
    d1, d2 = r.choice((1.0, 2.0)), r.choice((1.0, 1.0, 2.0))
    if kind < 0.08:
        return ("", 0.0, "", 0.0)
    if kind < 0.25:
        return (t1, d1, "", 0.0)
    if kind < 0.32:
        return ("", 0.0, t2, d2)
    return (t1, d1, t2, d2)


def family(fam):
    if fam not in FAMILIES and fam.startswith("L"):
        # one sample with n experiments on two unobserved plates (plus a two-experiment sample)
        n = int(fam[1:])
        FAMILIES[fam] = [("s1", "a", 1.0 + i, "b", 1.0, "u%d" % (i % 2)) for i in range(n)] + [("s2", "a", 1.0, "b", 1.0, "u2"), ("s2", "a", 2.0, "b", 1.0, "u2")]
    if fam not in FAMILIES and fam.startswith("G"):
        FAMILIES[fam] = generated_family(int(fam[1:]))
    return FAMILIES[fam]


NAN_ROW = [None]  # set by the operation harness for configurations in which one not yet observed outcome is NaN


def build(ctx, fam, R, all_observed=False, all_unobserved=False):
    rows = family(fam)[:R]
    nan_row = NAN_ROW[0]
    if R > 24:
        # large screens: concrete pairwise distinct tags (the operations only move observation values around)
        obs = [0.001 * (i + 1) for i in range(R)]
    else:
        obs = [ctx.real("ob%d" % i, positive=True) for i in range(R)]
        for i in range(R):
            for j in range(i):
                ctx.assume(obs[i] != obs[j], "observation tags pairwise distinct")
    if all_observed:
        mask = [True] * R
    elif all_unobserved:
        mask = [False] * R
    else:
        mask = [r[5].startswith("obs") for r in rows]
    if nan_row is not None:
        # a stored outcome that is not a number on a plate that has not been run yet (the last such row): a legal float
        cand = [i for i in range(R) if not mask[i]]
        if cand:
            obs[cand[min(nan_row, len(cand) - 1)]] = float("nan")
    screen = concrete_screen(ctx, rows, observations=obs, mask=mask)
    return screen, rows, obs, mask


def tag_index(ctx, v, tags):
    """index of the input row whose (unforgeable) observation tag this value is, or None"""
    if isinstance(v, float) and v != v:
        return next((j for j, t in enumerate(tags) if isinstance(t, float) and t != t), None)
    for j, t in enumerate(tags):
        if isinstance(t, float) and t != t:
            continue
        if ctx.symbolic and isinstance(t, E.SymReal):
            if isinstance(v, E.SymReal) and z3.eq(z3.simplify(v.e), z3.simplify(t.e)):
                return j
        elif not isinstance(v, E.SymReal):
            if float(v) == float(t):
                return j
    return None


def row_table(screen):
    return dict(sn=screen.sample_names.tolist(), tn=screen.treatment_names.tolist(), td=screen.treatment_doses.tolist(),
                pn=screen.plate_names.tolist(), obs=screen.observations.tolist(), mask=screen.observation_mask.tolist())


def match_rows(ctx, out, rows, tags):
    """map every output row to the input row it came from; returns (list of input indices or None, all attributes equal?)"""
    t = row_table(out)
    idx, attrs_ok = [], True
    for r in range(len(t["sn"])):
        j = tag_index(ctx, t["obs"][r], tags)
        idx.append(j)
        if j is None:
            continue
        src = rows[j]
        ok = (t["sn"][r] == src[0] and list(t["tn"][r]) == [src[1], src[3]] and list(t["td"][r]) == [src[2], src[4]])
        attrs_ok = attrs_ok and ok
    return idx, attrs_ok, t


def fixture_values(R=121):
    import random
    out = []
    for seed in (1, 2, 3):
        r = random.Random(seed)
        v = {"ob%d" % i: 0.11 * (i + 1) + 0.001 * seed for i in range(R)}
        for k in range(40):
            v["R.pick%d" % k] = r.randrange(0, 4)
        v.update(max_plate_size=r.randrange(1, 4), min_size=r.randrange(1, 5), plate_size=r.randrange(1, 4),
                 n_iterations=r.randrange(0, 3), min_n=r.randrange(1, 3), subset_size=1, anchor_size=r.randrange(0, 2),
                 reveal=bool(seed % 2), num=seed, den=4, fnum=seed, fden=3)
        out.append(v)
    return out
