"""C04 - masked observations never influence training, scoring or selection."""
from .common import cli_main, cli_argv, concrete_screen, all_eq

PROPERTY = "C04"
LEVEL = "model_checking"
FUNCTIONS = [
    "batchie.core.BayesianModel.add_observations",
    "batchie.models.sparse_combo.SparseDrugCombo._add_observations / LegacySparseDrugComboImpl._update / encode_obs",
    "batchie.models.sparse_combo_interaction.SparseDrugComboInteraction._add_observations",
    "batchie.cli.train_model.main (through get_parser / get_args with sys.argv set; sampling.sample replaced by a recorder: what the sampler computes from the training arrays is C08)",
    "batchie.data.Screen.subset_observed", "batchie.scoring.main.score_chunk / select_next_plate",
    "batchie.distance_calculation.calculate_pairwise_distance_matrix_on_predictions", "batchie.distance.mse.MSEDistance.distance",
    "batchie.scoring.gaussian_dbal.GaussianDBALScorer.score",
]
BOUNDS = {
    "quick": "screens of 5 rows on 3 plates (combination, single-agent and all-control rows), every per-plate mask, symbolic observation values; 3 posterior samples, n_chunks<=2, batches of <=1 plate",
    "thorough": "additionally 7 rows on 4 plates, n_chunks<=3, and 40 generated screen structures of up to 12 rows on up to 7 plates with every per-plate mask",
}
ASSUMPTIONS = [
    "non-interference is decided syntactically under the models: masked observation values are objects that raise on any use, so an output that depends on them cannot be produced (the replay on the real code instead compares two runs that differ only in masked values, NaN and a negative number included)",
    "float32 cast kept as a tag, logit uninterpreted: y = LOGIT(clip(o, .01, .99)) is an identity of real terms",
    "the sampler's numerics are not re-run here: add_observations is the model's only ingress for data (C08 covers what a step computes from the training arrays)",
]
OUTSIDE = ["float32 rounding of y", "what the Gibbs sampler computes from the training arrays (C08)"]
RULE = "per-plate mask, chunk counts and batches are solver-enumerated; observed values stay symbolic, masked values are poison."
BUDGET_S = {"quick": 600, "thorough": 3000}
TASK_QUOTA = 60

# (row 2 repeats the condition of row 0 on another plate: replicate measurements are experiments of their own)
ROWS5 = [("s1", "a", 1.0, "b", 1.0, "p0"), ("s2", "a", 1.0, "", 0.0, "p0"), ("s1", "a", 1.0, "b", 1.0, "p1"),
         ("s2", "", 0.0, "", 0.0, "p1"), ("s2", "c", 2.0, "a", 1.0, "p2")]
ROWS7 = ROWS5 + [("s1", "", 0.0, "b", 1.0, "p3"), ("s3", "b", 1.0, "a", 1.0, "p3")]


class PoisonUsed(Exception):
    pass


class Poison:
    """a masked observation value: any use is an information leak"""

    def _leak(self, *a, **k):
        raise PoisonUsed("a masked observation value was read")

    __add__ = __radd__ = __sub__ = __rsub__ = __mul__ = __rmul__ = __truediv__ = __rtruediv__ = _leak
    __lt__ = __le__ = __gt__ = __ge__ = __eq__ = __ne__ = __neg__ = __abs__ = __float__ = __bool__ = __pow__ = _leak
    __hash__ = None


def configs(tier, seed):
    q = tier == "quick"
    out = []
    for R in ((5,) if q else (5, 7)):
        out += [dict(name="train sparse_combo R=%d" % R, h="train", R=R, model="combo"),
                dict(name="train interaction R=%d" % R, h="train", R=R, model="inter"),
                dict(name="interaction effect table with replicates R=%d" % R, h="effects", R=R, model="inter"),
                dict(name="two batches sparse_combo R=%d" % R, h="batches", R=R, model="combo"),
                dict(name="two batches interaction R=%d" % R, h="batches", R=R, model="inter"),
                dict(name="refuse sparse_combo R=%d" % R, h="refuse", R=R, model="combo"),
                dict(name="refuse interaction R=%d" % R, h="refuse", R=R, model="inter"),
                dict(name="pipeline R=%d" % R, h="pipeline", R=R, chunks=2 if q else 3),
                dict(name="pipeline interaction-model samples R=%d" % R, h="pipeline", R=R, chunks=1 if q else 2, thetas="inter"),
                dict(name="pipeline interaction-model samples, incomplete effect table R=%d" % R, h="pipeline", R=R, chunks=1, thetas="inter_partial")]
    if not q:
        # generated screen structures (see retro_common.generated_family): single-sample plates whose rows are not adjacent,
        # repeated conditions, vehicle-only rows; every per-plate mask
        from .retro_common import family
        for k in range(N_GENERATED):
            fam = "G%d" % k
            R = len(family(fam))
            out += [dict(name="train sparse_combo %s (%d rows)" % (fam, R), h="train", R=R, fam=fam, model="combo"),
                    dict(name="train interaction %s (%d rows)" % (fam, R), h="train", R=R, fam=fam, model="inter"),
                    dict(name="pipeline %s (%d rows)" % (fam, R), h="pipeline", R=R, fam=fam, chunks=2),
                    dict(name="pipeline interaction-model samples %s (%d rows)" % (fam, R), h="pipeline", R=R, fam=fam, chunks=1, thetas="inter"),
                    dict(name="pipeline interaction-model samples, incomplete effect table %s (%d rows)" % (fam, R), h="pipeline", R=R, fam=fam,
                         chunks=1, thetas="inter_partial")]
    return out


N_GENERATED = 40


def fixtures(cfg):
    v = {"ob%d" % i: ([0.5, 0.003, 0.97, 1.0, 0.25, 0.6, 0.4] + [0.1 + 0.07 * j for j in range(8)])[i] for i in range(15)}
    v.update({"pm%d" % i: i != 1 for i in range(8)})
    v.update(n_chunks=2, batch=1, neg=0, nanrow=0)
    return [v, dict(v, pm0=False, pm1=True, n_chunks=1, batch=-1), dict(v, pm2=False, pm3=False)]


def _rows(cfg):
    if cfg.get("fam"):
        from .retro_common import family
        return family(cfg["fam"])[:cfg["R"]]
    return (ROWS5 if cfg["R"] == 5 else ROWS7)[:cfg["R"]]


def _mk_model(ctx, kind, screen):
    data = ctx.mod("batchie.data")
    es = data.ExperimentSpace.from_screen(screen)
    if kind == "combo":
        return ctx.mod("batchie.models.sparse_combo").SparseDrugCombo(experiment_space=es, n_embedding_dimensions=1)
    return ctx.mod("batchie.models.sparse_combo_interaction").SparseDrugComboInteraction(experiment_space=es, n_embedding_dimensions=1)


def h_train(ctx, cfg):
    """through the train_model command: the arrays handed to the sampler"""
    np = ctx.np
    rows = _rows(cfg)
    R = len(rows)
    pnames = sorted(set(r[5] for r in rows))
    pstat = {p: ctx.is_true(ctx.bool("pm%d" % i)) for i, p in enumerate(pnames)}
    mask = [pstat[r[5]] for r in rows]
    obs_sym = [ctx.real("ob%d" % i, nonneg=True) for i in range(R)]
    if ctx.symbolic:
        obs = [obs_sym[i] if mask[i] else Poison() for i in range(R)]
    else:
        obs = [obs_sym[i] if mask[i] else float("nan") for i in range(R)]
    screen = concrete_screen(ctx, rows, observations=obs, mask=mask)
    sfn = ctx.tmp("screen.h5")
    screen.save_h5(sfn)
    tm = ctx.mod("batchie.cli.train_model")
    core = ctx.mod("batchie.core")
    captured = {}

    def fake_sample(model, results, **kw):
        captured["model"] = model
        results.add_theta(model.get_model_state())
        return results
    cls = (ctx.mod("batchie.models.sparse_combo").SparseDrugCombo if cfg["model"] == "combo"
           else ctx.mod("batchie.models.sparse_combo_interaction").SparseDrugComboInteraction)
    saved = tm.sampling.sample
    tm.sampling.sample = fake_sample
    try:
        cli_argv(ctx, "batchie.cli.train_model", ["--data", sfn, "--model", cls.__name__, "--model-param", "n_embedding_dimensions=1",
                                                  "--output", ctx.tmp("thetas.h5"), "--n-samples", 1, "--n-burnin", 0, "--thin", 1])
    except PoisonUsed:
        ctx.fail("a masked observation value was read while training the model", key="%s: masked value read during training" % cfg["model"])
    finally:
        tm.sampling.sample = saved
    model = captured["model"]
    if not ctx.symbolic:
        # replay: a second training run that differs only in the masked values must hand the same data to the sampler
        first = (list(model.wrapped_model.y), dict(getattr(model, "single_effect_lookup", {})))
        obs2 = [obs_sym[i] if mask[i] else 0.61 + 0.01 * i for i in range(R)]
        concrete_screen(ctx, rows, observations=obs2, mask=mask).save_h5(sfn)
        tm.sampling.sample = fake_sample
        try:
            cli_argv(ctx, "batchie.cli.train_model", ["--data", sfn, "--model", cls.__name__, "--model-param", "n_embedding_dimensions=1",
                                                      "--output", ctx.tmp("thetas2.h5"), "--n-samples", 1, "--n-burnin", 0, "--thin", 1])
        finally:
            tm.sampling.sample = saved
        m2 = captured["model"]
        second = (list(m2.wrapped_model.y), dict(getattr(m2, "single_effect_lookup", {})))
        import math
        def _same(a, b):
            return a == b or (isinstance(a, float) and isinstance(b, float) and math.isnan(a) and math.isnan(b)) or abs(a - b) < 1e-12
        same = len(first[0]) == len(second[0]) and all(_same(float(a), float(b)) for a, b in zip(first[0], second[0]))
        same = same and sorted(first[1]) == sorted(second[1]) and all(_same(float(first[1][k]), float(second[1][k])) for k in first[1])
        ctx.prove(same, "a masked observation value was read while training the model", key="%s: masked value read during training" % cfg["model"])
        model = m2
    wm = model.wrapped_model
    sid, tid = screen.sample_ids.tolist(), screen.treatment_ids.tolist()
    if cfg["model"] == "combo":
        used = [i for i in range(R) if mask[i]]
        doc = "every observed experiment"
    else:
        used = [i for i in range(R) if mask[i] and tid[i][0] != -1 and tid[i][1] != -1]
        doc = "every observed combination experiment (both treatments non-control)"
    got = list(zip(wm.cline, wm.dd1, wm.dd2))
    ctx.observe("n_obs", model.n_obs())
    ctx.prove(model.n_obs() == len(used), "model is trained on exactly the observed experiments it documents using (%s), each once" % doc,
              key="%s: number of training rows != number of documented observed rows" % cfg["model"])
    want = [(sid[i], tid[i][0], tid[i][1]) for i in used]
    ctx.prove([tuple(int(x) for x in g) for g in got] == want if len(got) == len(want) else False,
              "training rows carry the sample and treatment ids of the observed experiments, in order",
              key="%s: training rows are not the documented observed rows" % cfg["model"])
    if cfg["model"] == "combo" and len(got) == len(want):
        sps = ctx.mod("batchie.models.sparse_combo")
        ys = list(wm.y)
        for k, i in enumerate(used):
            ref = sps.logit(np.clip(np.array([obs_sym[i]], dtype=float).astype(np.float32), a_min=0.01, a_max=0.99)).tolist()[0]
            ctx.prove(ctx.eq(ys[k], ref), "training target = logit(clip(observation, 0.01, 0.99))", key="combo: target transformation")
    return used


ROWS_REP = [("s1", "a", 1.0, "", 0.0, "p0"), ("s1", "a", 1.0, "", 0.0, "p1"), ("s1", "a", 1.0, "", 0.0, "p2"), ("s1", "", 0.0, "b", 1.0, "p0"),
            ("s1", "a", 1.0, "b", 1.0, "p1"), ("s2", "a", 1.0, "", 0.0, "p2"), ("s2", "a", 1.0, "", 0.0, "p3"), ("s2", "b", 1.0, "a", 1.0, "p3")]


def h_effects(ctx, cfg):
    """the interaction model's single-agent effect table is what it documents: for every (sample, treatment) the mean of
    the observed single-agent measurements (three replicates for one pair, on different plates), 1 for control - and
    nothing from masked rows"""
    np = ctx.np
    rows = ROWS_REP
    R = len(rows)
    pnames = sorted(set(r[5] for r in rows))
    pstat = {p: ctx.is_true(ctx.bool("pm%d" % i)) for i, p in enumerate(pnames)}
    mask = [pstat[r[5]] for r in rows]
    if not any(mask):
        ctx.assume(False)
    obs_sym = [ctx.real("ob%d" % i, nonneg=True) for i in range(R)]
    full = concrete_screen(ctx, rows, observations=obs_sym, mask=[True] * R)
    screen = concrete_screen(ctx, rows, observations=[obs_sym[i] if mask[i] else (Poison() if ctx.symbolic else float("nan")) for i in range(R)], mask=mask)
    m = _mk_model(ctx, "inter", full)
    try:
        m.add_observations(screen.subset_observed())
    except PoisonUsed:
        ctx.fail("a masked observation value was read while training the model", key="inter: masked value read during training")
    lookup = {(int(a), int(b)): v for (a, b), v in m.single_effect_lookup.items()}
    sid, tid = full.sample_ids.tolist(), full.treatment_ids.tolist()
    groups = {}
    for i in range(R):
        nonctrl = [t for t in tid[i] if t != -1]
        if mask[i] and len(nonctrl) == 1:
            groups.setdefault((sid[i], nonctrl[0]), []).append(obs_sym[i])
    for key, vals in groups.items():
        ctx.prove(key in lookup, "an observed single-agent measurement yields an entry of the effect table")
        if key in lookup:
            total = 0.0
            for v in vals:
                total = total + v
            ctx.prove(ctx.eq(lookup[key] * len(vals), total), "single-agent effect = mean of the observed single-agent measurements (replicates included)",
                      key="inter: single-agent effect is not the mean of the observed replicates")
    for (s_, t_), v in lookup.items():
        if t_ == -1:
            ctx.prove(ctx.eq(v, 1.0), "the control effect is 1")
        else:
            ctx.prove((s_, t_) in groups, "no effect entry without an observed single-agent measurement", key="inter: effect entry from unobserved data")
    return len(groups)


def h_batches(ctx, cfg):
    """observations arrive in two calls (the plates observed first, then the plates observed later): the model ends up
    trained on every observed experiment it documents using, each exactly once, in arrival order"""
    np = ctx.np
    rows = _rows(cfg)
    R = len(rows)
    kind = cfg["model"]
    obs_sym = [ctx.real("ob%d" % i, nonneg=True) for i in range(R)]
    full = concrete_screen(ctx, rows, observations=obs_sym, mask=[True] * R)
    pnames = sorted(set(r[5] for r in rows))
    first = [p for i, p in enumerate(pnames) if ctx.is_true(ctx.bool("pm%d" % i))]
    sel1 = [r[5] in first for r in rows]
    sel2 = [not x for x in sel1]
    if not any(sel1) or not any(sel2):
        ctx.assume(False)
    m = _mk_model(ctx, kind, full)
    m.add_observations(full.subset(np.array(sel1, dtype=bool)))
    m.add_observations(full.subset(np.array(sel2, dtype=bool)))
    sid, tid = full.sample_ids.tolist(), full.treatment_ids.tolist()
    order = [i for i in range(R) if sel1[i]] + [i for i in range(R) if sel2[i]]
    if kind == "combo":
        used = order
    else:
        used = [i for i in order if tid[i][0] != -1 and tid[i][1] != -1]
    wm = m.wrapped_model
    got = [tuple(int(x) for x in g) for g in zip(wm.cline, wm.dd1, wm.dd2)]
    ctx.prove(m.n_obs() == len(used), "after two calls the model holds every documented observed experiment exactly once",
              key="%s: number of training rows after two batches" % kind)
    ctx.prove(got == [(sid[i], tid[i][0], tid[i][1]) for i in used] if len(got) == len(used) else False,
              "training rows carry the sample and treatment ids of the observed experiments, in arrival order",
              key="%s: training rows after two batches" % kind)
    return len(used)


def h_refuse(ctx, cfg):
    np = ctx.np
    rows = _rows(cfg)
    R = len(rows)
    obs = [0.5] * R
    full = concrete_screen(ctx, rows, observations=obs, mask=[True] * R)
    kind = cfg["model"]
    # (a) any masked row
    pnames = sorted(set(r[5] for r in rows))
    pstat = {p: ctx.is_true(ctx.bool("pm%d" % i)) for i, p in enumerate(pnames)}
    mask = [pstat[r[5]] for r in rows]
    s = concrete_screen(ctx, rows, observations=obs, mask=mask)
    data = ctx.mod("batchie.data")
    plates = s.plates
    containers = [("screen", s, list(range(R))), ("whole-screen view", s.subset(np.array([True] * R, dtype=bool)), list(range(R))),
                  ("concatenation of all plate views", data.ScreenSubset.concat(plates), list(range(R)))]
    if len(plates) >= 2:
        # views that are Plate objects but span several plates (combine / invert return the type of their first operand)
        sv = [p.selection_vector.tolist() for p in plates]
        containers.append(("first plate combined with the last", plates[0].combine(plates[-1]), [i for i in range(R) if sv[0][i] or sv[-1][i]]))
        containers.append(("last plate combined with the first", plates[-1].combine(plates[0]), [i for i in range(R) if sv[0][i] or sv[-1][i]]))
        containers.append(("complement of the first plate", plates[0].invert(), [i for i in range(R) if not sv[0][i]]))
        containers.append(("complement of the last plate", plates[-1].invert(), [i for i in range(R) if not sv[-1][i]]))
    for what, c, members in containers:
        m = _mk_model(ctx, kind, full)
        fully = all(mask[i] for i in members)
        try:
            m.add_observations(c)
            ctx.prove(fully, "add_observations accepts only fully observed data (%s)" % what, key="%s: masked rows accepted by add_observations" % kind)
        except ValueError:
            ctx.prove(not fully, "add_observations refuses data that still contains masked rows (%s)" % what,
                      key="%s: fully observed data refused by add_observations" % kind)
    # (b) a negative observation / (c) a NaN observation in an otherwise valid, fully observed screen
    tid = full.treatment_ids.tolist()
    # the offending value sits in any one experiment: a combination, a single-agent or a vehicle-only row
    target = int(ctx.int("neg", 0, R - 1))
    for what, val in (("negative", -0.25), ("NaN", float("nan")), ("negative (below float32 resolution)", -1e-60)):
        o2 = list(obs)
        o2[target] = val
        s2 = concrete_screen(ctx, rows, observations=o2, mask=[True] * R)
        m2 = _mk_model(ctx, kind, full)
        try:
            m2.add_observations(s2)
            ctx.fail("%s observation accepted by the model" % what, key="%s: %s observation accepted" % (kind, what))
        except ValueError:
            ctx.prove(True, "model refuses %s observations" % what)
    return 1


class _Out:
    pass


def _pipeline_once(ctx, cfg, masked_value, pstat, n_chunks, batch_idx, obs_sym, kind="combo"):
    np = ctx.np
    rows = _rows(cfg)
    R = len(rows)
    mask = [pstat[r[5]] for r in rows]
    obs = [obs_sym[i] if mask[i] else masked_value(i) for i in range(R)]
    screen = concrete_screen(ctx, rows, observations=obs, mask=mask)
    sc = ctx.mod("batchie.models.sparse_combo")
    core = ctx.mod("batchie.core")
    dcm = ctx.mod("batchie.distance_calculation")
    mse = ctx.mod("batchie.distance.mse")
    sm = ctx.mod("batchie.scoring.main")
    gd = ctx.mod("batchie.scoring.gaussian_dbal")
    nS, nT = screen.sample_space_size, screen.treatment_space_size
    holder = core.ThetaHolder(n_thetas=3)
    sci = ctx.mod("batchie.models.sparse_combo_interaction")
    # a complete single-effect table (every sample x every treatment incl. control), as training on full data yields
    lookup = {}
    sid_, tid_ = screen.sample_ids.tolist(), screen.treatment_ids.tolist()
    single_agent = {(int(sid_[i]), int(max(tid_[i]))) for i in range(R) if sorted(int(x) == -1 for x in tid_[i]) == [False, True]}
    for s_ in range(nS):
        lookup[(s_, -1)] = 1.0
        for k in range(nT):
            if kind == "inter_partial" and (s_, k) in single_agent:
                continue  # single-agent effects never observed during training (their only measurements sit on the screen, possibly masked)
            lookup[(s_, k)] = 0.3 + 0.05 * k + 0.1 * s_
    for t in range(3):
        f = 0.1 * (t + 1)
        if kind.startswith("inter"):
            holder.add_theta(sci.SparseDrugComboInteractionMCMCSample(
                W=np.array([[f * (s + 1)] for s in range(nS)], dtype=float), V2=np.array([[f + 0.1 * k] for k in range(nT)], dtype=float),
                precision=1.0 + t, single_effect_lookup=lookup))
            continue
        holder.add_theta(sc.SparseDrugComboMCMCSample(
            W=np.array([[f * (s + 1)] for s in range(nS)], dtype=float), W0=np.array([0.2 * f] * nS, dtype=float),
            V2=np.array([[f + 0.1 * k] for k in range(nT)], dtype=float), V1=np.array([[0.3 - f * k] for k in range(nT)], dtype=float),
            V0=np.array([0.05 * k for k in range(nT)], dtype=float), alpha=0.1 * t, precision=1.0 + t))
    unobs = screen.subset_unobserved()
    out = _Out()
    out.dist = None
    out.scores = []
    out.selected = None
    if unobs is None:
        return out
    # the distance step predicts on the whole screen when asked to (masked single-agent rows included)
    target = screen if kind.startswith("inter") else unobs
    parts = [dcm.calculate_pairwise_distance_matrix_on_predictions(holder, mse.MSEDistance(sigmoid=True), target, chunk_index=c, n_chunks=2)
             for c in range(2)]
    dm = dcm.ChunkedDistanceMatrix.concat(parts)
    out.dist = dm.to_dense().tolist()
    pids = sorted(int(p.plate_id) for p in screen.plates if not p.is_observed)
    batch = [pids[batch_idx]] if 0 <= batch_idx < len(pids) and len(pids) > 1 else []

    class Fixed:
        def choice(self, n, size=None, replace=True, p=None, axis=0, shuffle=True):
            return list(range(n))
    holders = []
    for c in range(n_chunks):
        h = sm.score_chunk(gd.GaussianDBALScorer(max_chunk=2), holder, screen, dm, rng=Fixed(), n_chunks=n_chunks, chunk_index=c,
                           batch_plate_ids=batch or None)
        holders.append(h)
        out.scores.append((h.plate_ids.tolist(), h.scores.tolist()))
    allsc = sm.ChunkedScoresHolder.concat(holders)
    best = sm.select_next_plate(allsc, screen, None, batch_plate_ids=batch, rng=Fixed())
    out.selected = None if best is None else best.plate_id
    return out


def h_pipeline(ctx, cfg):
    rows = _rows(cfg)
    R = len(rows)
    pnames = sorted(set(r[5] for r in rows))
    pstat = {p: ctx.is_true(ctx.bool("pm%d" % i)) for i, p in enumerate(pnames)}
    n_chunks = int(ctx.int("n_chunks", 1, cfg["chunks"]))
    batch_idx = int(ctx.int("batch", -1, 1))
    obs_sym = [0.3 + 0.1 * i for i in range(R)]
    kind = cfg.get("thetas", "combo")
    if ctx.symbolic:
        try:
            out = _pipeline_once(ctx, cfg, lambda i: Poison(), pstat, n_chunks, batch_idx, obs_sym, kind)
        except KeyError:
            # the interaction model refuses to predict a (sample, treatment) whose single-agent effect it never saw:
            # a refusal that does not depend on masked values
            ctx.prove(kind == "inter_partial", "prediction refused for an unseen single-agent effect, independently of masked values")
            return "refused"
        except PoisonUsed:
            ctx.fail("a masked observation value was read while computing distances, scores or the selection",
                     key="masked value read by the distance / scoring / selection path")
        ctx.prove(True, "distance matrix, plate scores and selected plate computed without reading any masked value")
        return out.selected
    def once(mv):
        try:
            return _pipeline_once(ctx, cfg, mv, pstat, n_chunks, batch_idx, obs_sym, kind)
        except KeyError:
            o = _Out()
            o.dist, o.scores, o.selected = "refused", [], "refused"
            return o
    a = once(lambda i: 0.123)
    b = once(lambda i: float("nan") if i % 2 else 0.77)
    if a.dist == "refused" or b.dist == "refused":
        ctx.prove(a.dist == b.dist, "distance matrix, plate scores and selected plate computed without reading any masked value",
                  key="masked value read by the distance / scoring / selection path")
        return "refused"
    ctx.observe("dist", a.dist)
    ctx.observe("sel", a.selected)
    same = (a.dist is None and b.dist is None) or (a.dist is not None and b.dist is not None and all_eq(ctx, a.dist, b.dist))
    same = same and len(a.scores) == len(b.scores) and all(x[0] == y[0] and all_eq(ctx, x[1], y[1]) for x, y in zip(a.scores, b.scores))
    same = same and a.selected == b.selected
    ctx.prove(same, "distance matrix, plate scores and selected plate computed without reading any masked value",
              key="masked value read by the distance / scoring / selection path")
    return a.selected


def run(ctx, cfg):
    return {"train": h_train, "effects": h_effects, "batches": h_batches, "refuse": h_refuse, "pipeline": h_pipeline}[cfg["h"]](ctx, cfg)
