"""Runs one retrospective-preparation operation on a family screen and asserts the C11 (conservation)
and / or C13 (shape) post-conditions.  Used by c11.py and c13.py."""
import math

from .retro_common import build, match_rows, row_table, tag_index, FAMILIES


def op_configs(tier):
    q = tier == "quick"
    out = []

    def add(name, **kw):
        out.append(dict(name=name, **kw))
    add("permutation A", op="perm", fam="A", R=5, force=None)
    add("permutation A keep-u1", op="perm", fam="A", R=5, force=["u1"])
    add("permutation A keep list with repeated, observed and unknown names", op="perm", fam="A", R=7, force=["u2", "obs", "u2", "nope", "u4"])
    add("permutation E (all-control row)", op="perm", fam="E", R=5, force=None)
    add("segregating E (all-control row)", op="segr", fam="E", R=5, pmax=3)
    add("fixed-size E (all-control row)", op="fixed", fam="E", R=6, pmax=3)
    add("balanced hold-out E (all-control row)", op="holdout", fam="E", R=5)
    add("segregating A", op="segr", fam="A", R=5, pmax=3)
    add("permutation A, screen object used a second time after an in-place reveal", op="perm", fam="A", R=5, force=None, reuse=True)
    add("fixed-size A, screen object used a second time after an in-place reveal", op="fixed", fam="A", R=5, pmax=3, reuse=True)
    add("segregating B, screen object used a second time after an in-place reveal", op="segr", fam="B", R=4, pmax=3, reuse=True)
    add("segregating B", op="segr", fam="B", R=4 if q else 5, pmax=3)
    add("segregating M (twelve samples: more than ten generated plates)", op="segr", fam="M", R=14, pmax=2)
    # plate sizes: a sample of n experiments under every size limit 1..5 (one draw of the generator: the identity permutation)
    for n in ((7, 11, 14) if q else range(1, 20)):
        add("segregating, one sample with %d experiments" % n, op="segr", fam="L%d" % n, R=n + 2, pmax=5, fixed_rng=True)
    # a not yet observed outcome that is NaN is an experiment like any other
    add("permutation A, an unobserved outcome is NaN", op="perm", fam="A", R=5, force=None, nan_row=1)
    add("segregating B, an unobserved outcome is NaN", op="segr", fam="B", R=4, pmax=3, nan_row=0)
    add("fixed-size A, an unobserved outcome is NaN", op="fixed", fam="A", R=5, pmax=3, nan_row=2)
    add("pairwise D", op="pair", fam="D", R=4 if q else 6)
    add("pairwise H (single-agent rows for the last sample only)", op="pair", fam="H", R=6 if q else 7)
    add("pairwise P (five samples, all pairs of four drugs: more samples than treatment groups)", op="pair", fam="P", R=30, fixed_rng=True)
    for op in ("fixed", "optimal", "nper", "ensemble", "mergemin", "topbottom"):
        add("%s S1 (a single unobserved plate)" % op, op=op, fam="S1", R=4, pmax=3)
    add("merge-min C", op="mergemin", fam="C", R=6 if q else 7, pmax=6)
    add("merge-min A", op="mergemin", fam="A", R=5, pmax=4)
    add("top-bottom C", op="topbottom", fam="C", R=6 if q else 7)
    add("fixed-size C", op="fixed", fam="C", R=6, pmax=4)
    add("fixed-size A", op="fixed", fam="A", R=5, pmax=3)
    add("optimal-size C", op="optimal", fam="C", R=6)
    add("optimal-size F (repeated sizes)", op="optimal", fam="F", R=7)
    add("fixed-size F (repeated sizes)", op="fixed", fam="F", R=7, pmax=3)
    add("merge-min F", op="mergemin", fam="F", R=7, pmax=4)
    add("top-bottom F", op="topbottom", fam="F", R=7)
    add("optimal-size A", op="optimal", fam="A", R=5 if q else 7)
    add("n-plates-per-sample A", op="nper", fam="A", R=5 if q else 7)
    add("n-plates-per-sample B", op="nper", fam="B", R=5 if q else 7)
    add("ensemble C", op="ensemble", fam="C", R=4 if q else 6)
    add("ensemble F (truncation draws)", op="ensemble", fam="F", R=7)
    add("sparse-cover A", op="cover", fam="A", R=4 if q else 5)
    add("sparse-cover B", op="cover", fam="B", R=4)
    add("balanced hold-out A", op="holdout", fam="A", R=5)
    add("balanced hold-out R (replicates on one plate)", op="holdout", fam="R", R=7)
    add("random hold-out R (replicates on one plate)", op="rholdout", fam="R", R=5)
    add("fixed-size R (replicates on one plate)", op="fixed", fam="R", R=7, pmax=3)
    add("segregating R (replicates on one plate)", op="segr", fam="R", R=6, pmax=3)
    add("balanced hold-out C", op="holdout", fam="C", R=4 if q else 6)
    add("random hold-out A", op="rholdout", fam="A", R=4)
    add("hold-out fraction outside [0,1]", op="badfraction", fam="A", R=3)
    add("combination filter D", op="combofilter", fam="D", R=7)
    add("combination filter A", op="combofilter", fam="A", R=7)
    add("combination filter, three treatment columns", op="combofilter", fam="T3", R=8)
    add("segregating M2 (120 samples: more than a hundred generated plates)", op="segr", fam="M2", R=120, pmax=1)
    if True:
        from .retro_common import family
        # quick: the two largest small structures (ten rows on six plates, repeated sizes); thorough: 64 structures
        for k in ((32, 33) if q else range(N_GENERATED)):
            fam = "G%d" % k
            R = len(family(fam))
            for op, kw in (("perm", dict(force=None)), ("segr", dict(pmax=3)), ("mergemin", dict(pmax=5)), ("topbottom", {}),
                           ("fixed", dict(pmax=3)), ("optimal", {}), ("nper", {}), ("ensemble", {}), ("holdout", {}),
                           ("rholdout", {}), ("cover", {}), ("combofilter", {}), ("pair", {})):
                # operations whose generator draws are permutations of all rows are factorial in the row count
                if op == "pair" and (q or k >= 12):
                    continue
                if op in ("perm", "rholdout", "cover", "segr", "pair"):
                    if k >= 24 and not q:
                        continue
                    Rop = min(R, 5 if q else 7 if k < 4 else 6)
                elif op in ("holdout", "ensemble"):
                    Rop = min(R, 8)
                else:
                    Rop = R
                add("%s %s (generated structure, %d rows)" % (op, fam, Rop), op=op, fam=fam, R=Rop, **kw)
    return out


N_GENERATED = 64


class _IdentityRng:
    """a generator that returns the least surprising legal value: the identity permutation, the first k elements"""

    def __init__(self, np):
        self.np = np

    def permutation(self, x):
        return self.np.array(list(range(int(x))) if isinstance(x, int) else list(x.tolist() if hasattr(x, "tolist") else x))

    def shuffle(self, x):
        return None

    def choice(self, a, size=None, replace=True, p=None, axis=0, shuffle=True):
        items = list(range(int(a))) if isinstance(a, int) else list(a.tolist() if hasattr(a, "tolist") else a)
        if size is None:
            return items[0]
        k = int(size)
        if not replace and k > len(items):
            raise ValueError("Cannot take a larger sample than population when replace is False")
        return self.np.array([items[i % len(items)] for i in range(k)] if replace else items[:k])


def _first_use_then_reveal(ctx, screen, rows, mask, tags, use):
    """the screen object is prepared once, one of its unobserved plates is then marked observed in place (set_observed with
    the stored values), and the operation under test is applied to the same object again"""
    np = ctx.np
    try:
        use()
    except ValueError:
        pass
    unobs = sorted({r[5] for i, r in enumerate(rows) if not mask[i]})
    if not unobs:
        return mask
    p = unobs[int(ctx.int("reveal_plate", 0, len(unobs) - 1))]
    sel = [r[5] == p for r in rows]
    screen.set_observed(np.array(sel, dtype=bool), np.array([tags[i] for i in range(len(rows)) if sel[i]], dtype=float))
    return [m or sel[i] for i, m in enumerate(mask)]


def _plates_of(t, only_unobserved=True):
    groups = {}
    for i, p in enumerate(t["pn"]):
        if only_unobserved and t["mask"][i]:
            continue
        groups.setdefault(p, []).append(i)
    return groups


def run_op(ctx, cfg, want11, want13):
    from . import retro_common
    retro_common.NAN_ROW[0] = cfg.get("nan_row")
    try:
        return _run_op(ctx, cfg, want11, want13)
    finally:
        retro_common.NAN_ROW[0] = None


def _run_op(ctx, cfg, want11, want13):
    np = ctx.np
    retro = ctx.mod("batchie.retrospective")
    data = ctx.mod("batchie.data")
    op, fam, R = cfg["op"], cfg["fam"], cfg["R"]
    rng = _IdentityRng(np) if cfg.get("fixed_rng") else ctx.rng("R")
    P11 = (lambda c, label, **kw: ctx.prove(c, label, **kw)) if want11 else (lambda c, label, **kw: None)
    P13 = (lambda c, label, **kw: ctx.prove(c, label, **kw)) if want13 else (lambda c, label, **kw: None)

    if op in ("perm", "segr", "pair"):
        screen, rows, tags, mask = build(ctx, fam, R)
        if op == "perm":
            g = retro.PlatePermutationPlateGenerator(force_include_plate_names=cfg["force"])
        elif op == "segr":
            pmax = int(ctx.int("max_plate_size", 1, cfg["pmax"]))
            g = retro.SampleSegregatingPermutationPlateGenerator(max_plate_size=pmax)
        else:
            sub = int(ctx.int("subset_size", 1, 2))
            anc = int(ctx.int("anchor_size", 0, 1))
            g = retro.PairwisePlateGenerator(subset_size=sub, anchor_size=anc)
        if cfg.get("reuse"):
            mask = _first_use_then_reveal(ctx, screen, rows, mask, tags, lambda: g.generate_plates(screen, ctx.rng("R0")))
        try:
            out = g.generate_plates(screen, rng)
        except ValueError:
            ctx.prove(op == "pair", "generator raised ValueError (only the pairwise generator documents doing so)")
            return "raised"
        idx, attrs_ok, t = match_rows(ctx, out, rows, tags)
        P11(None not in idx and sorted(idx) == list(range(R)), "generator keeps every experiment exactly once (multiset equality)",
            key="%s: experiments not conserved" % op)
        P11(attrs_ok, "every output experiment has the sample, treatments, doses and observation of an input experiment",
            key="%s: experiment altered" % op)
        for r, j in enumerate(idx):
            if j is not None and mask[j]:
                P11(t["mask"][r] is True or t["mask"][r] == True and t["pn"][r] == rows[j][5],  # noqa: E712
                    "observed part of the screen passes through unchanged and still observed", key="%s: observed rows changed" % op)
            elif j is not None:
                P11(not t["mask"][r], "generated plates are unobserved")
        if op in ("segr", "pair"):
            for p, members in _plates_of(t).items():
                P13(len({t["sn"][i] for i in members}) == 1, "every generated unobserved plate contains a single sample",
                    key="%s: multi-sample plate" % op)
                if op == "segr":
                    P13(len(members) <= pmax, "sample-segregating plates hold at most max_plate_size experiments", key="segr: plate above the size limit")
        return len(_plates_of(t))

    if op in ("mergemin", "topbottom", "fixed", "optimal", "nper", "ensemble"):
        screen, rows, tags, mask = build(ctx, fam, R)
        params = {}
        if op == "mergemin":
            params["min_size"] = int(ctx.int("min_size", 1, cfg["pmax"]))
            s = retro.MergeMinPlateSmoother(**params)
        elif op == "topbottom":
            params["n_iterations"] = int(ctx.int("n_iterations", 0, 2))
            s = retro.MergeTopBottomPlateSmoother(**params)
        elif op == "fixed":
            params["plate_size"] = int(ctx.int("plate_size", 1, cfg["pmax"]))
            s = retro.FixedSizeSmoother(**params)
        elif op == "optimal":
            s = retro.OptimalSizeSmoother()
        elif op == "nper":
            params["min_n_cell_line_plates"] = int(ctx.int("min_n", 1, 3))
            s = retro.NPlatePerCellLineSmoother(**params)
        else:
            params = dict(min_size=int(ctx.int("min_size", 1, 3)), n_iterations=int(ctx.int("n_iterations", 0, 1)),
                          min_n_cell_line_plates=int(ctx.int("min_n", 1, 2)))
            s = retro.BatchieEnsemblePlateSmoother(**params)
        if cfg.get("reuse"):
            mask = _first_use_then_reveal(ctx, screen, rows, mask, tags, lambda: s.smooth_plates(screen, ctx.rng("R0")))
        before = _plates_of(dict(pn=[r[5] for r in rows], mask=mask))
        out = s.smooth_plates(screen, rng)
        idx, attrs_ok, t = match_rows(ctx, out, rows, tags)
        P11(None not in idx and len(set(idx)) == len(idx), "smoother keeps a sub-collection: no experiment invented or duplicated",
            key="%s: experiment invented or duplicated" % op)
        P11(attrs_ok, "every output experiment has the sample, treatments, doses and observation of an input experiment",
            key="%s: experiment altered" % op)
        kept_obs = [j for r, j in enumerate(idx) if j is not None and mask[j]]
        P11(sorted(kept_obs) == [j for j in range(R) if mask[j]], "observed part of the screen passes through the smoother",
            key="%s: observed rows lost" % op)
        for r, j in enumerate(idx):
            if j is not None:
                P11(bool(t["mask"][r]) == mask[j], "observation status of every kept experiment is unchanged", key="%s: mask changed" % op)
                if mask[j]:
                    P11(t["pn"][r] == rows[j][5], "observed experiments keep their plate")
        after = _plates_of(t)
        sizes_before = {p: len(m) for p, m in before.items()}
        sample_of_plate_before = {p: rows[m[0]][0] for p, m in before.items()}
        if op in ("mergemin", "topbottom", "ensemble"):
            for p, members in after.items():
                P13(len({t["sn"][i] for i in members}) == 1, "merge smoothers only merge plates of the same sample", key="%s: samples mixed" % op)
        if op == "mergemin":
            for smp in set(t["sn"][i] for m in after.values() for i in m):
                sz = sorted(len(m) for m in after.values() if t["sn"][m[0]] == smp)
                P13(len(sz) <= 1 or sz[0] + sz[1] > params["min_size"],
                    "min-merging continues while the two smallest plates of a sample together do not exceed min_size", key="mergemin: stopped early")
            # never merges a pair whose sizes already exceeded min_size: a merged plate's two smallest constituents fit
            for p, members in after.items():
                parts = {}
                for i in members:
                    parts.setdefault(rows[idx[i]][5], 0)
                    parts[rows[idx[i]][5]] += 1
                if len(parts) >= 2:
                    ps = sorted(parts.values())
                    P13(ps[0] + ps[1] <= params["min_size"], "min-merging stops once the two smallest plates together exceed min_size",
                        key="mergemin: merged beyond min_size")
        if op == "topbottom":
            for smp in set(sample_of_plate_before.values()):
                c = sum(1 for p in before if sample_of_plate_before[p] == smp)
                for _ in range(params["n_iterations"]):
                    c = c - c // 2
                got = sum(1 for m in after.values() if t["sn"][m[0]] == smp)
                P13(got == c, "each top-bottom iteration halves (rounding up) the unobserved plates of every sample", key="topbottom: plate count")
        if op == "fixed":
            P13(all(len(m) == params["plate_size"] for m in after.values()), "fixed-size smoothing leaves only unobserved plates of the configured size",
                key="fixed: plate of another size")
            keep = sum(params["plate_size"] for p, n in sizes_before.items() if n >= params["plate_size"])
            P13(sum(len(m) for m in after.values()) == keep, "fixed-size smoothing drops exactly the small plates and trims the large ones",
                key="fixed: retained experiments")
        if op == "optimal" and sizes_before:
            szs = sorted(len(m) for m in after.values())
            P13(len(set(szs)) <= 1, "optimal-size smoothing leaves one common plate size", key="optimal: sizes differ")
            best = max(sz * sum(1 for n in sizes_before.values() if n >= sz) for sz in set(sizes_before.values()))
            P13(sum(szs) == best, "the optimal size is one that retains the most experiments", key="optimal: not optimal")
        if op in ("nper",):
            for smp in set(t["sn"][i] for m in after.values() for i in m):
                n = sum(1 for m in after.values() if t["sn"][m[0]] == smp)
                P13(n >= params["min_n_cell_line_plates"], "no sample is left with fewer unobserved plates than configured", key="nper: sample below minimum")
            for smp in set(sample_of_plate_before.values()):
                nb = sum(1 for p in before if sample_of_plate_before[p] == smp)
                na = sum(1 for m in after.values() if t["sn"][m[0]] == smp)
                P13(na == (nb if nb >= params["min_n_cell_line_plates"] else 0), "samples with enough plates are kept whole, the others dropped",
                    key="nper: wrong samples dropped")
        return len(after)

    if op == "cover":
        screen, rows, tags, mask = build(ctx, fam, R, all_observed=True)
        reveal = ctx.is_true(ctx.bool("reveal"))
        g = retro.SparseCoverPlateGenerator(reveal_single_treatment_experiments=reveal)
        out = g.generate_and_unmask_initial_plate(screen, rng)
        idx, attrs_ok, t = match_rows(ctx, out, rows, tags)
        P11(idx == list(range(R)) and attrs_ok, "initial-plate generation keeps every experiment unchanged", key="cover: experiments not conserved")
        obs_rows = [i for i in range(R) if t["mask"][i]]
        P13({t["sn"][i] for i in obs_rows} == {r[0] for r in rows}, "initial plate observes at least one experiment of every sample",
            key="cover: sample not covered")
        alltr = {(r[1], r[2]) for r in rows if r[1] != ""} | {(r[3], r[4]) for r in rows if r[3] != ""}
        covered = {(t["tn"][i][c], t["td"][i][c]) for i in obs_rows for c in range(2) if t["tn"][i][c] != ""}
        P13(covered == alltr, "initial plate observes at least one experiment of every treatment", key="cover: treatment not covered")
        rest = {t["pn"][i] for i in range(R) if not t["mask"][i]}
        P13(len(rest) <= 1 and len({t["pn"][i] for i in obs_rows}) == 1, "everything else is left in one unobserved plate", key="cover: plates")
        if reveal:
            P13(all(t["mask"][i] for i in range(R) if rows[i][1] == "" or rows[i][3] == ""), "single-agent experiments are revealed when asked")
        return len(obs_rows)

    if op in ("holdout", "rholdout"):
        screen, rows, tags, mask = build(ctx, fam, R)
        frac = ctx.real("fraction")
        ctx.assume(ctx.And(frac >= 0, frac <= 1), "0 <= fraction <= 1")
        if op == "holdout":
            train, test = retro.create_plate_balanced_holdout_set_among_masked_plates(screen, frac, rng)
        else:
            train, test = retro.create_random_holdout(screen, frac, rng)
        i1, ok1, t1 = match_rows(ctx, train, rows, tags)
        i2, ok2, t2 = match_rows(ctx, test, rows, tags)
        P11(None not in i1 + i2 and sorted(i1 + i2) == list(range(R)), "training plus hold-out equals the input as multisets",
            key="%s: split is not a partition" % op)
        P11(ok1 and ok2, "split experiments keep sample, treatments, doses and observation", key="%s: experiment altered" % op)
        P11(all(t1["pn"][r] == rows[j][5] for r, j in enumerate(i1) if j is not None)
            and all(t2["pn"][r] == rows[j][5] for r, j in enumerate(i2) if j is not None), "plate labels are kept by the split",
            key="%s: plate labels changed" % op)
        P11(all(bool(t1["mask"][r]) == mask[j] for r, j in enumerate(i1) if j is not None), "training mask is left as it was", key="%s: training mask changed" % op)
        P11(all(bool(m) for m in t2["mask"]), "hold-out is marked fully observed", key="%s: hold-out not fully observed" % op)
        held = [j for j in i2 if j is not None]
        if op == "holdout":
            P11(not any(mask[j] for j in held), "no hold-out experiment comes from an observed plate", key="holdout: drawn from observed plate")
            plates = {}
            for j in range(R):
                if not mask[j]:
                    plates.setdefault(rows[j][5], []).append(j)
            for p, members in plates.items():
                n = sum(1 for j in held if j in members)
                # n = ceil(fraction * size):  n - 1 < fraction*size <= n
                sz = len(members)
                P11(ctx.And(frac * sz <= n, frac * sz > n - 1), "hold-out takes ceil(fraction x size) experiments from each unobserved plate",
                    key="holdout: wrong number taken from a plate")
        else:
            n = len(held)
            P11(ctx.And(frac * R <= n, frac * R > n - 1), "random hold-out takes ceil(fraction x size) experiments", key="rholdout: wrong size")
        return len(held)

    if op == "badfraction":
        screen, rows, tags, mask = build(ctx, fam, R)
        frac = ctx.real("fraction")
        ctx.assume(ctx.Or(frac < 0, frac > 1))
        for f in (retro.create_plate_balanced_holdout_set_among_masked_plates, retro.create_random_holdout):
            try:
                f(screen, frac, rng)
                ctx.fail("fraction outside [0,1] accepted")
            except ValueError:
                ctx.prove(True, "fraction outside [0,1] is refused")
        return 0

    if op == "combofilter" and fam == "T3":
        # three treatment columns: full combinations, partial combinations (one control), single agents and a vehicle-only row
        rows3 = [("s1", ["a", "b", "c"], [1.0, 1.0, 1.0]), ("s1", ["d", "e", ""], [1.0, 1.0, 0.0]), ("s1", ["a", "e", ""], [1.0, 1.0, 0.0]),
                 ("s2", ["d", "", ""], [1.0, 0.0, 0.0]), ("s2", ["a", "", "b"], [1.0, 0.0, 1.0]), ("s1", ["", "", ""], [0.0, 0.0, 0.0]),
                 ("s2", ["c", "b", "a"], [1.0, 1.0, 1.0]), ("s2", ["b", "", ""], [1.0, 0.0, 0.0])][:R]
        obs = [ctx.real("ob%d" % i, positive=True) for i in range(len(rows3))]
        for i in range(len(rows3)):
            for j in range(i):
                ctx.assume(obs[i] != obs[j], "observation tags pairwise distinct")
        screen = data.Screen(treatment_names=np.array([r[1] for r in rows3], dtype=str), treatment_doses=np.array([r[2] for r in rows3], dtype=float),
                             sample_names=np.array([r[0] for r in rows3], dtype=str), plate_names=np.array(["p"] * len(rows3), dtype=str),
                             observations=np.array(obs, dtype=float), observation_mask=np.array([True] * len(rows3), dtype=bool), control_treatment_name="")
        out = data.filter_dataset_to_treatments_that_appear_in_at_least_one_combo(screen)
        got = [tag_index(ctx, v, obs) for v in out.observations.tolist()]
        tid = screen.treatment_ids.tolist()
        in_combo = {x for r in tid if all(v != -1 for v in r) for x in r}
        want = [i for i in range(len(rows3)) if all((v == -1) or (v in in_combo) for v in tid[i])]
        P11(None not in got and len(set(got)) == len(got), "combination filter keeps a sub-collection of unchanged experiments",
            key="combofilter: experiment invented or altered")
        P13(sorted(got) == want if None not in got else False,
            "combination filter keeps exactly the experiments all of whose treatments occur in some full combination", key="combofilter: wrong rows kept")
        return len(got)

    if op == "combofilter":
        screen, rows, tags, mask = build(ctx, fam, R, all_observed=True)
        out = data.filter_dataset_to_treatments_that_appear_in_at_least_one_combo(screen)
        idx, attrs_ok, t = match_rows(ctx, out, rows, tags)
        P11(None not in idx and len(set(idx)) == len(idx) and attrs_ok, "combination filter keeps a sub-collection of unchanged experiments",
            key="combofilter: experiment invented or altered")
        tid = screen.treatment_ids.tolist()
        in_combo = {x for r in tid if all(v != -1 for v in r) for x in r}
        want = [i for i in range(R) if all((v == -1) or (v in in_combo) for v in tid[i])]
        P13(sorted(idx) == want if None not in idx else False,
            "combination filter keeps exactly the experiments all of whose treatments occur in some full combination", key="combofilter: wrong rows kept")
        return len(idx)

    raise ValueError(op)
