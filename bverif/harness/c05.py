"""C05 - a plate's DBAL score depends on that plate alone and equals the direct estimator."""
import itertools
import math

PROPERTY = "C05"
LEVEL = "model_checking"
FUNCTIONS = [
    "batchie.scoring.gaussian_dbal.pad_ragged_arrays_to_dense_array",
    "batchie.scoring.gaussian_dbal.dbal_fast_gauss_scoring_vectorized",
    "batchie.scoring.gaussian_dbal.dbal_fast_gaussian_scoring_heteroscedastic / _homoscedastic",
    "batchie.scoring.gaussian_dbal.GaussianDBALScorer.score",
    "batchie.scoring.gaussian_dbal.get_combination_at_sorted_index",
    "batchie.models.main.predict_mean_all / predict_variance_all",
    "batchie.distance_calculation.ChunkedDistanceMatrix.add_value / to_dense",
]
BOUNDS = {
    "quick": "n_thetas 3 with plates of sizes (1,2) and 4 with sizes (2,1,3) and a single plate; all means real, variances > 0, distances >= 0 symmetric; three triple orders; scorer max_chunk in 1..P+1 and two plate orders (plate sizes (1,2), (2,1,3) and (3,2,3,1): equal padded shapes in consecutive sub-groups); all 6 / 3 sampled relabellings of the posterior samples; scorer on real Screen views (whole plates keyed by plate id, and candidates combined with a batch plate), distance pairs stored in row order, reversed or rotated",
    "thorough": "additionally n_thetas 5 with sizes (1,2), (2,3,1,4), (3,3,3); 6 with (1,2), (2,3); 7 with (2,1); 4 with five plates (5,1,4,2,3); scorer with five plates and every max_chunk 1..6; all 24 relabellings for n=4, every tenth of the 120 for n=5",
}
ASSUMPTIONS = [
    "exp/log are uninterpreted functions: equalities are identities of real terms (stronger than floating-point agreement, silent about rounding)",
    "scipy.special.logsumexp(v) = LOG(sum EXP v), entries equal to -inf contribute nothing (model of log 0)",
    "rng.choice(C, C, replace=False) is a permutation of range(C): identity, reversal and one rotation are explored (permutation invariance of a real sum is not re-proved for all C! orders)",
    "variances are positive reals, distance matrix symmetric with zero diagonal and entries >= 0, all finite",
]
OUTSIDE = ["sub-sampled regime C(n,3) > max_combos (C15/C18 cover distinctness and reproducibility only)", "IEEE overflow/underflow of exp", "n_thetas > 7"]
RULE = "paths are the scorer's own case distinctions (max_chunk, plate order, triple order); every mean, variance and distance is a symbolic real on each path."
BUDGET_S = {"quick": 600, "thorough": 3000}
PROVE_TIMEOUT_MS = 30000
SOLVER_TIMEOUT_MS = 10000
REAL_FIXTURE_VIOLATIONS = True  # a concrete fixture that fails on the real code is reported even if the modelled run fails alike
NUMERIC_FIRST = 6  # cheap numeric falsification attempt before each solver query (candidates are replayed on the real code)


def configs(tier, seed):
    q = tier == "quick"
    out = []
    shapes = [(3, (1, 2)), (4, (2, 1, 3)), (4, (2,))]
    if not q:
        shapes += [(5, (1, 2)), (5, (2, 3, 1, 4)), (3, (1, 1, 1, 1)), (6, (1, 2)), (6, (2, 3)), (5, (3, 3, 3)), (4, (5, 1, 4, 2, 3)), (7, (2, 1))]
    for nt, sizes in shapes:
        for order in ("id", "rev", "rot"):
            if order != "id" and (nt, sizes) not in ((3, (1, 2)), (4, (2, 1, 3))):
                continue
            out.append(dict(name="hetero nt=%d sizes=%s order=%s" % (nt, sizes, order), h="hetero", nt=nt, sizes=list(sizes), order=order))
        out.append(dict(name="homo nt=%d sizes=%s" % (nt, sizes), h="homo", nt=nt, sizes=list(sizes)))
    out.append(dict(name="scorer nt=3 sizes=(1,2)", h="scorer", nt=3, sizes=[1, 2]))
    out.append(dict(name="scorer nt=4 sizes=(2,1,3)", h="scorer", nt=4, sizes=[2, 1, 3]))
    out.append(dict(name="scorer nt=3 sizes=(2,1,2), candidates conditioned on a batch plate", h="scorer", nt=3, sizes=[2, 1, 2], views="conditioned"))
    # predicted means that are exactly zero
    out.append(dict(name="homo nt=3 sizes=(1,2) exact-zero means", h="homo", nt=3, sizes=[1, 2], zero_means=True))
    out.append(dict(name="hetero nt=3 sizes=(1,2) exact-zero means", h="hetero", nt=3, sizes=[1, 2], order="id", zero_means=True))
    out.append(dict(name="scorer nt=3 sizes=(1,2) exact-zero means", h="scorer", nt=3, sizes=[1, 2], zero_means=True))
    # the triple budget exactly C(n,3) (every triple still enumerated once)
    out.append(dict(name="hetero nt=4 sizes=(2,1) budget = C(4,3)", h="hetero", nt=4, sizes=[2, 1], order="id", budget="exact"))
    out.append(dict(name="homo nt=4 sizes=(2,1) budget = C(4,3)", h="homo", nt=4, sizes=[2, 1], budget="exact"))
    out.append(dict(name="scorer nt=4 sizes=(1,2) budget = C(4,3)", h="scorer", nt=4, sizes=[1, 2], budget="exact"))
    # consecutive sub-groups of equal padded shape in which a later plate is smaller than the plate that had its slot before
    out.append(dict(name="scorer nt=3 sizes=(3,2,3,1)", h="scorer", nt=3, sizes=[3, 2, 3, 1]))
    if not q:
        out.append(dict(name="scorer nt=4 sizes=(1,2,3,1,2)", h="scorer", nt=4, sizes=[1, 2, 3, 1, 2]))
        out.append(dict(name="scorer nt=5 sizes=(2,1,2)", h="scorer", nt=5, sizes=[2, 1, 2]))
        perms5 = list(itertools.permutations(range(5)))[1:]
        for pi in perms5[::10]:
            out.append(dict(name="relabel nt=5 perm=%s" % (pi,), h="relabel", nt=5, sizes=[2, 1], perm=list(pi)))
    perms3 = list(itertools.permutations(range(3)))[1:]
    for pi in perms3:
        out.append(dict(name="relabel nt=3 perm=%s" % (pi,), h="relabel", nt=3, sizes=[1, 2], perm=list(pi)))
    perms4 = list(itertools.permutations(range(4)))[1:]
    for pi in (perms4[::8] if q else perms4):
        out.append(dict(name="relabel nt=4 perm=%s" % (pi,), h="relabel", nt=4, sizes=[2, 1], perm=list(pi)))
    out.append(dict(name="finite nt=3", h="finite", nt=3, sizes=[2, 1]))
    out.append(dict(name="finite nt=4", h="finite", nt=4, sizes=[1, 2]))
    out.append(dict(name="extreme scales (concrete)", h="extreme"))
    out.append(dict(name="pad", h="pad"))
    out.append(dict(name="guards", h="guards"))
    return out


def fixtures(cfg):
    import random
    r = random.Random(11)
    vals = {}
    for p in range(5):
        for t in range(7):
            for e in range(5):
                vals["m%d_%d_%d" % (p, t, e)] = r.uniform(-2, 2)
                vals["v%d_%d_%d" % (p, t, e)] = 10 ** r.uniform(-3, 3)
            vals["hv%d_%d" % (p, t)] = 10 ** r.uniform(-2, 2)
    for i in range(7):
        for j in range(i):
            vals["d%d_%d" % (i, j)] = r.uniform(0.0, 2.0)
    vals.update(max_chunk=2, which=0, zero_all=False, fill=2)
    v2 = dict(vals, max_chunk=1, which=1, zero_all=True, fill=1)
    return [vals, v2]


class _FixedRng:
    """rng.choice(N, N, replace=False) = a fixed permutation (see ASSUMPTIONS)"""

    def __init__(self, order):
        self.order = order

    def choice(self, n, size=None, replace=True, p=None, axis=0, shuffle=True):
        if replace:
            # a draw with replacement may return anything; the least helpful legal answer is the same element every time
            return [int(n) // 2] * int(size)
        if size != n:
            raise ValueError("the harness generator serves full enumerations only (size == population)")
        idx = list(range(n))
        if self.order == "rev":
            idx = idx[::-1]
        elif self.order == "rot":
            idx = idx[1:] + idx[:1]
        return idx


def _budget(cfg, nt):
    """the triple budget: far above C(n,3), or - the boundary of the property's quantifier - exactly C(n,3)"""
    return math.comb(nt, 3) if cfg.get("budget") == "exact" else 10 ** 6


def _inputs(ctx, nt, sizes, cfg=None):
    means = [[[ctx.real("m%d_%d_%d" % (p, t, e)) for e in range(sz)] for t in range(nt)] for p, sz in enumerate(sizes)]
    vars_ = [[[ctx.real("v%d_%d_%d" % (p, t, e), positive=True) for e in range(sz)] for t in range(nt)] for p, sz in enumerate(sizes)]
    dist = [[0.0] * nt for _ in range(nt)]
    for i in range(nt):
        for j in range(i):
            d = ctx.real("d%d_%d" % (i, j), nonneg=True)
            dist[i][j] = dist[j][i] = d
    if cfg is not None and cfg.get("zero_means"):
        # predicted means that are exactly 0 (a control well, a rounded grid): the first experiment of every plate for the
        # first and last posterior sample.  The other inputs are kept away from the degenerate values a solver likes best
        # (zero distances, unit variances) so that a counterexample says something.
        for p in range(len(sizes)):
            means[p][0][0] = 0.0
            means[p][nt - 1][0] = 0.0
        for i in range(nt):
            for j in range(i):
                ctx.assume(dist[i][j] > 0, "positive distances")
        for p in range(len(sizes)):
            for t in range(nt):
                for v in vars_[p][t]:
                    ctx.assume(ctx.Or(v > 2, v < 0.5), "variances away from 1")
    return means, vars_, dist


def _triple_order(gd, nt, order):
    C = math.comb(nt, 3)
    idx = _FixedRng(order).choice(C, C, False)
    ref = sorted(tuple(sorted(c, reverse=True)) for c in itertools.combinations(range(nt), 3))
    return [ref[i] for i in idx]


def _ref_exponent(ctx, np, means, variances, dist, tri):
    """direct, unpadded, loop-by-loop exponent of one triple for one plate"""
    i, j, k = tri
    acc = np.log(dist[i][j] + dist[j][k] + dist[i][k])
    for e in range(len(means[0])):
        v1, v2, v3 = variances[i][e], variances[j][e], variances[k][e]
        m1, m2, m3 = means[i][e], means[j][e], means[k][e]
        alpha = v1 * v2 + v2 * v3 + v1 * v3
        acc = acc + 0.5 * np.log(1.0 / alpha)
        acc = acc - (0.5 * v1 * v2 * v3 / (alpha * alpha)) * (
            v3 * (m1 - m2) * (m1 - m2) + v2 * (m1 - m3) * (m1 - m3) + v1 * (m2 - m3) * (m2 - m3))
    return acc


def _ref_score(ctx, np, means, variances, dist, triples):
    s = None
    for tri in triples:
        e = np.exp(_ref_exponent(ctx, np, means, variances, dist, tri))
        s = e if s is None else s + e
    return np.log(s)


class _Recorder:
    def __init__(self, gd):
        self.gd, self.calls = gd, []

    def __enter__(self):
        self.orig = self.gd.logsumexp

        def rec(a, axis=None):
            self.calls.append(a.tolist())
            return self.orig(a, axis=axis)
        self.gd.logsumexp = rec
        return self

    def __exit__(self, *a):
        self.gd.logsumexp = self.orig
        return False


EXPO = "triple exponent = log summed distance + per-experiment Gaussian triple term (direct loop evaluation)"


def _checked(ctx, np, gd, fn, means, vars_, dist, order, nt):
    """run one scoring call with the logsumexp argument recorded and prove every exponent equal to the
    direct loop evaluation first (rational-function identities, decidable); the end-to-end equalities
    that follow are then consequences by congruence"""
    triples = _triple_order(gd, nt, order)
    with _Recorder(gd) as rec:
        scores = fn()
    rows = [r for call in rec.calls for r in call]
    if not (len(rows) == len(means) and all(len(r) == len(triples) for r in rows)):
        # this implementation does not hand one exponent per (plate, triple) to scipy's logsumexp: the intermediate values
        # cannot be observed, and the obligations on the scores themselves (below, at every call site) decide alone
        return scores
    for p in range(len(means)):
        for c, tri in enumerate(triples):
            ctx.prove(ctx.eq(rows[p][c], _ref_exponent(ctx, np, means[p], vars_[p], dist, tri)), EXPO)
    return scores


def h_hetero(ctx, cfg):
    np = ctx.np
    gd = ctx.mod("batchie.scoring.gaussian_dbal")
    nt, sizes, order = cfg["nt"], cfg["sizes"], cfg["order"]
    means, vars_, dist = _inputs(ctx, nt, sizes, cfg)
    D = np.array(dist, dtype=float)
    M = [np.array(m, dtype=float) for m in means]
    V = [np.array(v, dtype=float) for v in vars_]
    triples = _triple_order(gd, nt, order)
    H = gd.dbal_fast_gaussian_scoring_heteroscedastic
    together = _checked(ctx, np, gd, lambda: H(M, V, D, _FixedRng(order), max_combos=_budget(cfg, nt)).tolist(),
                        means, vars_, dist, order, nt)
    ctx.observe("scores", together)
    ctx.prove(len(together) == len(sizes), "one score per plate")
    for p in range(len(sizes)):
        ref = _ref_score(ctx, np, means[p], vars_[p], dist, triples)
        ctx.prove(ctx.eq(together[p], ref), "score = log-sum over triples of the direct estimator")
        alone = _checked(ctx, np, gd, lambda: H([M[p]], [V[p]], D, _FixedRng(order), max_combos=_budget(cfg, nt)).tolist(),
                         [means[p]], [vars_[p]], dist, order, nt)
        ctx.prove(ctx.eq(alone[0], together[p]), "score unchanged by the other plates scored alongside (padding)")
        if sizes[p] >= 2:
            permd = list(range(sizes[p]))[::-1]
            Mp = np.array([[row[e] for e in permd] for row in means[p]], dtype=float)
            Vp = np.array([[row[e] for e in permd] for row in vars_[p]], dtype=float)
            mp = [[row[e] for e in permd] for row in means[p]]
            vp = [[row[e] for e in permd] for row in vars_[p]]
            sc = _checked(ctx, np, gd, lambda: H([Mp], [Vp], D, _FixedRng(order), max_combos=_budget(cfg, nt)).tolist(),
                          [mp], [vp], dist, order, nt)
            ctx.prove(ctx.eq(sc[0], together[p]), "score unchanged by the order of experiments within the plate")
    if len(sizes) >= 2:
        rev = _checked(ctx, np, gd, lambda: H(M[::-1], V[::-1], D, _FixedRng(order), max_combos=_budget(cfg, nt)).tolist(),
                       means[::-1], vars_[::-1], dist, order, nt)
        for p in range(len(sizes)):
            ctx.prove(ctx.eq(rev[len(sizes) - 1 - p], together[p]), "score unchanged by the order of plates")
    if order != "id":
        base = _checked(ctx, np, gd, lambda: H(M, V, D, _FixedRng("id"), max_combos=_budget(cfg, nt)).tolist(),
                        means, vars_, dist, "id", nt)
        for p in range(len(sizes)):
            ctx.prove(ctx.eq(base[p], together[p]), "score unchanged by the order in which triples are drawn")
    return len(triples)


def h_homo(ctx, cfg):
    np = ctx.np
    gd = ctx.mod("batchie.scoring.gaussian_dbal")
    nt, sizes = cfg["nt"], cfg["sizes"]
    means, _, dist = _inputs(ctx, nt, sizes, cfg)
    hv = [[ctx.real("hv%d_%d" % (p, t), positive=True) for t in range(nt)] for p in range(len(sizes))]
    if cfg.get("zero_means"):
        for row in hv:
            for v in row:
                ctx.assume(ctx.Or(v > 2, v < 0.5), "variances away from 1")
    D = np.array(dist, dtype=float)
    M = [np.array(m, dtype=float) for m in means]
    vv_all = [[[hv[p][t]] * sz for t in range(nt)] for p, sz in enumerate(sizes)]
    homo = _checked(ctx, np, gd, lambda: gd.dbal_fast_gaussian_scoring_homoscedastic(
        M, np.array(hv, dtype=float), D, _FixedRng("id"), max_combos=_budget(cfg, nt)).tolist(), means, vv_all, dist, "id", nt)
    V = [np.array(v, dtype=float) for v in vv_all]
    het = _checked(ctx, np, gd, lambda: gd.dbal_fast_gaussian_scoring_heteroscedastic(
        M, V, D, _FixedRng("id"), max_combos=_budget(cfg, nt)).tolist(), means, vv_all, dist, "id", nt)
    ctx.observe("homo", homo)
    triples = _triple_order(gd, nt, "id")
    for p, sz in enumerate(sizes):
        ctx.prove(ctx.eq(homo[p], het[p]), "homoscedastic entry point = heteroscedastic with the variance repeated per experiment")
        vv = [[hv[p][t]] * sz for t in range(nt)]
        ctx.prove(ctx.eq(homo[p], _ref_score(ctx, np, means[p], vv, dist, triples)), "homoscedastic score = direct estimator")
    return len(sizes)


def _theta_class(core):
    class _Theta(core.Theta):
        """a posterior sample that predicts given per-row means / variances of the screen (the whole Theta interface)"""

        def __init__(self, np, means_row, var_row):
            self.np, self.m, self.v = np, means_row, var_row

        def predict_conditional_mean(self, data):
            return self.np.array(self.m, dtype=float)[data.selection_vector]

        def predict_conditional_variance(self, data):
            return self.np.array(self.v, dtype=float)[data.selection_vector]

        def predict_viability(self, data):
            return self.predict_conditional_mean(data)

        def private_parameters_dict(self):
            return {"m": self.np.array(self.m, dtype=float), "v": self.np.array(self.v, dtype=float)}

        def shared_parameters_dict(self):
            return {}

        @classmethod
        def from_dicts(cls, private_params, shared_params):
            raise NotImplementedError
    return _Theta


def _views(ctx, sizes):
    """real plate views of a real screen: plate p holds sizes[p] consecutive rows; the plate names sort in an order of their
    own, so plate ids are not row order.  Returns (screen, plate names, [view of plate p])"""
    from .common import concrete_screen
    names = ["pl_%s" % "dbaecf"[p] for p in range(len(sizes))]
    rows = []
    for p, sz in enumerate(sizes):
        for e in range(sz):
            rows.append(("s%d" % (p % 2), "a", float(len(rows) + 1), "b", 1.0, names[p]))
    screen = concrete_screen(ctx, rows)
    pid = dict(zip(screen.plate_mapping[0].tolist(), [int(x) for x in screen.plate_mapping[1].tolist()]))
    return screen, names, [screen.get_plate(pid[names[p]]) for p in range(len(sizes))]


def h_scorer(ctx, cfg):
    """the scorer entry point on real views of a real screen: whole plates keyed by their plate ids, or (views="conditioned")
    every candidate plate combined with the last plate, keyed by the candidate's id - what score_chunk hands the scorer while
    a batch is assembled"""
    np = ctx.np
    gd = ctx.mod("batchie.scoring.gaussian_dbal")
    core = ctx.mod("batchie.core")
    dc = ctx.mod("batchie.distance_calculation")
    nt, sizes = cfg["nt"], cfg["sizes"]
    means, vars_, dist = _inputs(ctx, nt, sizes, cfg)
    screen, names, view = _views(ctx, sizes)
    Theta = _theta_class(core)
    holder = core.ThetaHolder(n_thetas=nt)
    for t in range(nt):
        holder.add_theta(Theta(np, [x for p in range(len(sizes)) for x in means[p][t]],
                               [x for p in range(len(sizes)) for x in vars_[p][t]]))
    dm = dc.ChunkedDistanceMatrix(nt)
    # the pairs are stored in row order, in reverse, or rotated (chunks of a distance matrix may be combined in any order)
    pairs = [(i, j) for i in range(nt) for j in range(i)]
    fill = int(ctx.int("fill", 0, 2))
    pairs = pairs if fill == 0 else pairs[::-1] if fill == 1 else pairs[len(pairs) // 2:] + pairs[:len(pairs) // 2]
    for i, j in pairs:
        dm.add_value(i, j, dist[i][j])
    pid = {names[p]: int(view[p].plate_id) for p in range(len(sizes))}
    if cfg.get("views") == "conditioned":
        last = len(sizes) - 1
        entries = [(pid[names[p]], view[p].combine(view[last]), [p, last]) for p in range(last)]
    else:
        entries = [(pid[names[p]], view[p], [p]) for p in range(len(sizes))]
    max_chunk = int(ctx.int("max_chunk", 1, len(entries) + 1))
    which = int(ctx.int("which", 0, 1))
    if which == 1:
        entries = entries[::-1]
    ordered = {k: v for k, v, _ in entries}
    e_means = [[[x for p in parts for x in means[p][t]] for t in range(nt)] for _, _, parts in entries]
    e_vars = [[[x for p in parts for x in vars_[p][t]] for t in range(nt)] for _, _, parts in entries]
    scorer = gd.GaussianDBALScorer(max_chunk=max_chunk, max_triples=_budget(cfg, nt))
    res = _checked(ctx, np, gd, lambda: scorer.score(plates=ordered, distance_matrix=dm, samples=holder,
                                                       rng=_FixedRng("id"), progress_bar=False),
                   e_means, e_vars, dist, "id", nt)
    ctx.observe("scores", [res[k] for k in sorted(res)])
    ctx.prove(sorted(res.keys()) == sorted(k for k, _, _ in entries), "scorer returns exactly the plate ids it was given")
    triples = _triple_order(gd, nt, "id")
    for n, (k, _, parts) in enumerate(entries):
        ref = _ref_score(ctx, np, e_means[n], e_vars[n], dist, triples)
        ctx.prove(ctx.eq(res[k], ref), "scorer entry point: plate score = direct estimator for every batch size and plate order"
                  + (" (views conditioned on a batch plate)" if len(parts) > 1 else ""),
                  key="scorer entry point: score differs from the direct estimator on the view it was given")
    return max_chunk


def h_relabel(ctx, cfg):
    np = ctx.np
    gd = ctx.mod("batchie.scoring.gaussian_dbal")
    nt, sizes, pi = cfg["nt"], cfg["sizes"], cfg["perm"]
    means, vars_, dist = _inputs(ctx, nt, sizes)
    D = np.array(dist, dtype=float)
    M = [np.array(m, dtype=float) for m in means]
    V = [np.array(v, dtype=float) for v in vars_]
    H = gd.dbal_fast_gaussian_scoring_heteroscedastic
    base = _checked(ctx, np, gd, lambda: H(M, V, D, _FixedRng("id"), max_combos=_budget(cfg, nt)).tolist(), means, vars_, dist, "id", nt)
    M2 = [np.array([m[pi[t]] for t in range(nt)], dtype=float) for m in means]
    V2 = [np.array([v[pi[t]] for t in range(nt)], dtype=float) for v in vars_]
    D2 = np.array([[dist[pi[i]][pi[j]] for j in range(nt)] for i in range(nt)], dtype=float)
    means2 = [[m[pi[t]] for t in range(nt)] for m in means]
    vars2 = [[v[pi[t]] for t in range(nt)] for v in vars_]
    dist2 = [[dist[pi[i]][pi[j]] for j in range(nt)] for i in range(nt)]
    rel = _checked(ctx, np, gd, lambda: H(M2, V2, D2, _FixedRng("id"), max_combos=_budget(cfg, nt)).tolist(), means2, vars2, dist2, "id", nt)
    ctx.observe("rel", rel)
    for p in range(len(sizes)):
        ctx.prove(ctx.eq(rel[p], base[p]), "score unchanged by a consistent relabelling of the posterior samples")
    return 1


def h_finite(ctx, cfg):
    """with the -inf model of log 0: finite iff some triple has positive summed distance"""
    np = ctx.np
    gd = ctx.mod("batchie.scoring.gaussian_dbal")
    nt, sizes = cfg["nt"], cfg["sizes"]
    means, vars_, _ = _inputs(ctx, nt, sizes)
    zero_all = ctx.is_true(ctx.bool("zero_all"))
    dist = [[0.0] * nt for _ in range(nt)]
    if not zero_all:
        d = ctx.real("dpos", positive=True) if ctx.symbolic else 0.7
        dist[1][0] = dist[0][1] = d
    D = np.array(dist, dtype=float)
    M = [np.array(m, dtype=float) for m in means]
    V = [np.array(v, dtype=float) for v in vars_]
    with np.errstate(divide="ignore"):
        sc = gd.dbal_fast_gaussian_scoring_heteroscedastic(M, V, D, _FixedRng("id"), max_combos=_budget(cfg, nt)).tolist()
    for p in range(len(sizes)):
        isneginf = isinstance(sc[p], float) and sc[p] == float("-inf")
        isnan = isinstance(sc[p], float) and sc[p] != sc[p]
        ctx.prove(not isnan, "score is never NaN for finite inputs")
        if zero_all:
            ctx.prove(isneginf, "all triple distances zero: score is -inf")
        else:
            ctx.prove(not isneginf, "some triple has positive distance: score is finite")
    return zero_all


def h_extreme(ctx, cfg):
    """plates whose log-scores differ by far more than the double-precision exponent range, scored together, alone and
    through the scorer: concrete inputs only (the symbolic model is real arithmetic; underflow cannot be expressed there)"""
    if ctx.symbolic:
        ctx.prove(True, "extreme scales are checked on concrete inputs (fixtures) only")
        return 0
    import math
    np = ctx.np
    gd = ctx.mod("batchie.scoring.gaussian_dbal")
    nt = 3
    # plate 3: means of magnitude 1e6 whose spread across posterior samples is of order 1 (a formula that subtracts large
    # nearly equal numbers loses them)
    sizes = [1, 150, 2, 3]
    varis = [1.0, 1e-3, 1e3, 1.0]
    offs = [0.0, 0.0, 0.0, 1e6]
    means = [[[offs[p] + 0.1 * (t + 1) + 0.01 * e for e in range(sz)] for t in range(nt)] for p, sz in enumerate(sizes)]
    vars_ = [[[varis[p] * (1.0 + 0.1 * t) for e in range(sz)] for t in range(nt)] for p, sz in enumerate(sizes)]
    dist = [[0.0 if i == j else 0.5 + 0.1 * (i + j) for j in range(nt)] for i in range(nt)]

    def direct(m, v):
        # stable loop evaluation: a single triple for nt=3, so the log-sum is the exponent itself
        i, j, k = 2, 1, 0
        acc = math.log(dist[i][j] + dist[j][k] + dist[i][k])
        for e in range(len(m[0])):
            v1, v2, v3 = v[i][e], v[j][e], v[k][e]
            m1, m2, m3 = m[i][e], m[j][e], m[k][e]
            al = v1 * v2 + v2 * v3 + v1 * v3
            acc += 0.5 * math.log(1.0 / al) - (0.5 * v1 * v2 * v3 / (al * al)) * (v3 * (m1 - m2) ** 2 + v2 * (m1 - m3) ** 2 + v1 * (m2 - m3) ** 2)
        return acc
    D = np.array(dist, dtype=float)
    M = [np.array(m, dtype=float) for m in means]
    V = [np.array(v, dtype=float) for v in vars_]
    together = gd.dbal_fast_gaussian_scoring_heteroscedastic(M, V, D, _FixedRng("id"), max_combos=_budget(cfg, nt)).tolist()
    ctx.observe("together", together)
    for p in range(len(sizes)):
        want = direct(means[p], vars_[p])
        alone = gd.dbal_fast_gaussian_scoring_heteroscedastic([M[p]], [V[p]], D, _FixedRng("id"), max_combos=_budget(cfg, nt)).tolist()[0]
        ctx.prove(not math.isinf(together[p]) and not math.isnan(together[p]), "score is finite whenever some triple has positive distance (extreme scales)",
                  key="extreme scales: score not finite")
        ctx.prove(abs(together[p] - want) <= 1e-6 * max(1.0, abs(want)), "score equals the direct estimator to floating-point accuracy (extreme scales)",
                  key="extreme scales: score differs from the direct estimator")
        ctx.prove(abs(alone - together[p]) <= 1e-6 * max(1.0, abs(want)), "score unchanged by the other plates scored alongside (extreme scales)",
                  key="extreme scales: score depends on the other plates")
    return 1


def h_pad(ctx, cfg):
    np = ctx.np
    gd = ctx.mod("batchie.scoring.gaussian_dbal")
    a = [[ctx.real("m0_%d_%d" % (t, e)) for e in range(1)] for t in range(2)]
    b = [[ctx.real("m1_%d_%d" % (t, e)) for e in range(3)] for t in range(2)]
    for pad in (0.0, float("nan")):
        r = gd.pad_ragged_arrays_to_dense_array([np.array(a, dtype=float), np.array(b, dtype=float)], pad_value=pad).tolist()
        ctx.prove(len(r) == 2 and len(r[0]) == 2 and len(r[0][0]) == 3, "padded to the maximum size")
        for t in range(2):
            ctx.prove(ctx.eq(r[0][t][0], a[t][0]), "ragged copy is left-aligned and keeps values")
            for e in range(3):
                ctx.prove(ctx.eq(r[1][t][e], b[t][e]), "ragged copy is left-aligned and keeps values")
            for e in (1, 2):
                v = r[0][t][e]
                ctx.prove((v != v) if pad != pad else (v == 0.0), "padding cells carry the pad value")
    return 1


def h_guards(ctx, cfg):
    np = ctx.np
    gd = ctx.mod("batchie.scoring.gaussian_dbal")
    means, vars_, dist = _inputs(ctx, 2, [1])
    try:
        gd.dbal_fast_gaussian_scoring_heteroscedastic([np.array(means[0], dtype=float)], [np.array(vars_[0], dtype=float)],
                                                      np.array(dist, dtype=float), _FixedRng("id"))
        ctx.fail("fewer than three posterior samples accepted")
    except ValueError:
        ctx.prove(True, "fewer than three posterior samples are refused")
    return 1


def run(ctx, cfg):
    return {"hetero": h_hetero, "homo": h_homo, "scorer": h_scorer, "relabel": h_relabel, "finite": h_finite,
            "pad": h_pad, "guards": h_guards, "extreme": h_extreme}[cfg["h"]](ctx, cfg)
