"""C02 - Screen and experiment-space persistence is lossless."""
PROPERTY = "C02"
LEVEL = "model_checking"
FUNCTIONS = [
    "batchie.data.Screen.save_h5", "batchie.data.Screen.load_h5", "batchie.data.Screen.__init__ (as called by the loader)",
    "batchie.data.ExperimentSpace.save_h5 / load_h5 / from_screen",
]
BOUNDS = {
    "quick": "screens of 2 rows x arity 1-2 built through batchie's own encoder from symbolic names (order-isomorphism classes), symbolic doses/observations (float32 casts visible), symbolic per-plate mask, with a mapping that is a strict superset of the rows (+1 row); 2 save/load cycles; one screen built without outcomes whose plates are observed afterwards (set_observed); explicit mappings over exactly the rows' entities with ids in reverse name order, and of 300 entries",
    "thorough": "3 rows, +2 mapping rows, 3 cycles, arity 1-2",
}
ASSUMPTIONS = [
    "HDF5 is a faithful typed store: a dataset returns the array that was written (dtype kept, unicode arrays refused as h5py does), attrs return what was stored",
    "np.char.encode / np.char.decode with the default/utf-8 codec are mutually inverse on valid strings",
    "a cast to float32 changes the value (modelled by the uninterpreted F32) - any such cast on the way to or from disk is therefore visible",
]
OUTSIDE = ["what libhdf5/numpy do with particular byte strings (trailing NULs, padding, gzip): the 'bit-for-bit on disk' part that lives in C; counterexamples are nevertheless replayed on real h5py with non-ASCII and unequal-length names"]
RULE = "name/dose coincidence structure and the mask are solver-chosen; values stay symbolic."
BUDGET_S = {"quick": 600, "thorough": 3000}
TASK_QUOTA = 60


def configs(tier, seed):
    q = tier == "quick"
    T, C = "sym", "concrete"
    out = [dict(name="screen r=2 a=1 +1 treatments symbolic", h="screen", rows=2, arity=1, extra=1, cycles=2, treat=T, samples=C, plates="one"),
           dict(name="screen r=2 a=1 +1 samples/plates symbolic", h="screen", rows=2, arity=1, extra=1, cycles=2, treat=C, samples=T, plates=T),
           dict(name="screen r=1 a=2 +1 names symbolic", h="screen", rows=1, arity=2, extra=1, cycles=2, treat="fixed-doses", samples=C, plates="one"),
           dict(name="screen r=2 a=2 +0 names symbolic", h="screen", rows=2, arity=2, extra=0, cycles=1, treat="fixed-doses", samples=C, plates="one"),
           dict(name="space r=2 a=1", h="space", rows=2, arity=1, treat=T, samples=T, plates="one"),
           dict(name="screen after Plate.merge", h="merged", rows=6),
           dict(name="screen r=3 a=2 mappings of 300 entries (ids past 256 in use)", h="screen", rows=3, arity=2, extra=0, cycles=2, treat=C, samples=C,
                plates="each", big_map=300),
           dict(name="screen r=3 a=1 built without outcomes, plates observed afterwards (set_observed)", h="screen", rows=3, arity=1, extra=0,
                cycles=2, treat=C, samples=C, plates="each", late_obs=True),
           # explicit mappings that list exactly the rows' samples / conditions, with ids in reverse name order
           dict(name="screen r=3 a=2 explicit mappings over exactly the rows' entities, ids not in name order", h="screen", rows=3, arity=2,
                extra=0, cycles=2, treat=C, samples=C, plates="each", big_map=0),
           # every observation independently finite / NaN / +inf / -inf / -0.0, observed or not (three plates)
           dict(name="screen r=3 a=1 observation values of every float class", h="screen", rows=3, arity=1, extra=0, cycles=2, treat=C, samples=C,
                plates="each", special=True)]
    if not q:
        out += [dict(name="screen r=3 a=1 +1 treatments symbolic", h="screen", rows=3, arity=1, extra=1, cycles=3, treat=T, samples=C, plates="one"),
                dict(name="screen r=2 a=1 +2 treatments symbolic", h="screen", rows=2, arity=1, extra=2, cycles=3, treat=T, samples=C, plates="one"),
                dict(name="screen r=3 a=1 +1 samples/plates symbolic", h="screen", rows=3, arity=1, extra=1, cycles=3, treat=C, samples=T, plates=T),
                dict(name="screen r=2 a=2 +1 names symbolic", h="screen", rows=2, arity=2, extra=1, cycles=2, treat="fixed-doses", samples=C, plates="one"),
                dict(name="screen r=2 a=1 +1 all symbolic", h="screen", rows=2, arity=1, extra=1, cycles=1, treat=T, samples=T, plates=T),
                dict(name="space r=2 a=2", h="space", rows=2, arity=2, treat="fixed-doses", samples=T, plates="one")]
    return out


def fixtures(cfg):
    if cfg["h"] == "merged":
        return [dict(mi=0, mj=2, **{"ob%d" % r: 0.1 * (r + 1) for r in range(6)}), dict(mi=2, mj=1, **{"ob%d" % r: 0.3 * (r + 1) for r in range(6)})]
    vals = dict(ctrl="", sn0="s1", sn1="", sn2="s1", sn3="x", pn0="p", pn1="qé", pn2="p", pn3="r")
    names = ["a", "bü", "", "a", "bü", "c"]
    doses = [1.0, 2.5, 0.0, 1.0, 0.1, 3.0]
    k = 0
    for r in range(5):
        vals["ob%d" % r] = 0.1 * (r + 1)
        vals["mk%d" % r] = r % 2 == 0
        for c in range(2):
            vals["nm%d_%d" % (r, c)] = names[k % 6]
            vals["ds%d_%d" % (r, c)] = doses[k % 6]
            k += 1
    if cfg.get("special"):
        return [dict(vals, **{"ob0#cls": 1, "ob1#cls": 4, "mk0": False, "mk1": True, "mk2": False}),
                dict(vals, **{"ob0#cls": 2, "ob1#cls": 1, "ob2#cls": 3, "mk0": True, "mk1": False, "mk2": False})]
    return [vals]


def _build(ctx, data, cfg):
    np = ctx.np
    R, A, X = cfg["rows"], cfg["arity"], cfg.get("extra", 0)
    cyc = [1.0, 0.0, 2.0, 1.0, 0.1, 0.5]
    cn = ["a", "b\u00fc", "", "a ", "c\t", "b\u00fc"]  # ("a " and "a" are different names; white space is part of a name)
    if cfg["treat"] == "concrete":
        tn = [[cn[(r * A + c) % len(cn)] for c in range(A)] for r in range(R + X)]
        td = [[cyc[(r * A + c + 1) % len(cyc)] for c in range(A)] for r in range(R + X)]
        ctrl = "b\u00fc"  # a non-default control name that occurs in the rows
    else:
        tn = [[ctx.str("nm%d_%d" % (r, c)) for c in range(A)] for r in range(R + X)]
        ctrl = ctx.str("ctrl")
        if cfg["treat"] == "fixed-doses":
            td = [[cyc[(r * A + c) % len(cyc)] for c in range(A)] for r in range(R + X)]
        else:
            td = [[ctx.real_bits("ds%d_%d" % (r, c)) for c in range(A)] for r in range(R + X)]
    if cfg["samples"] == "concrete":
        sn = ["s%d" % (r % 3) + (" " if r % 3 == 0 else "") for r in range(R + X)]
        sn[-1] = "zz\u00e9"
    else:
        sn = [ctx.str("sn%d" % r) for r in range(R + X)]
    if cfg["plates"] == "each":
        pn = ["p%d" % (r % 3) + ("\n" if r % 3 == 1 else "") for r in range(R + X)]
    elif cfg["plates"] == "one":
        p0 = ctx.str("pn0") if cfg["treat"] != "concrete" or cfg["samples"] != "concrete" else "p"
        pn = [p0] * (R + X)
    else:
        pn = [ctx.str("pn%d" % r) for r in range(R + X)]
    kw = {}
    if X:
        big = data.Screen(treatment_names=np.array(tn), treatment_doses=np.array(td, dtype=float),
                          sample_names=np.array(sn), plate_names=np.array(pn), control_treatment_name=ctrl)
        kw = dict(treatment_mapping=big.treatment_mapping, sample_mapping=big.sample_mapping)
    if "big_map" in cfg:
        # id spaces far larger than the rows (ids past 255 / 256 in use by the rows): explicit dense mappings
        N = cfg["big_map"]
        snames = sorted(set(sn[:R])) + ["zs%03d" % i for i in range(N)]
        kw["sample_mapping"] = (np.array(snames, dtype=str), np.array(list(range(len(snames)))[::-1], dtype=int))
        conds = sorted({(tn[r][c], td[r][c]) for r in range(R) for c in range(A) if tn[r][c] != ctrl and td[r][c] > 0})
        ctrls = sorted({(tn[r][c], td[r][c]) for r in range(R) for c in range(A) if tn[r][c] == ctrl or td[r][c] <= 0})
        mn = [c[0] for c in conds] + ["zt%03d" % i for i in range(N)] + [c[0] for c in ctrls]
        md = [c[1] for c in conds] + [1.0] * N + [c[1] for c in ctrls]
        mi = list(range(len(conds) + N))[::-1] + [-1] * len(ctrls)
        kw["treatment_mapping"] = (np.array(mn, dtype=str), np.array(md, dtype=float), np.array(mi, dtype=int))
    obs = [(ctx.float_bits if cfg.get("special") else ctx.real_bits)("ob%d" % r) for r in range(R)]
    # per-plate mask: rows of one plate share the flag of the first row of that plate
    flags = [ctx.is_true(ctx.bool("mk%d" % r)) for r in range(R)]
    mask = []
    for r in range(R):
        m = flags[r]
        for r2 in range(r):
            if ctx.is_true(pn[r] == pn[r2]):
                m = mask[r2]
                break
        mask.append(m)
    if cfg.get("late_obs"):
        # a screen built without outcomes, whose observed plates are filled in afterwards (Screen.set_observed)
        s = data.Screen(treatment_names=np.array(tn[:R]), treatment_doses=np.array(td[:R], dtype=float),
                        sample_names=np.array(sn[:R]), plate_names=np.array(pn[:R]), control_treatment_name=ctrl, **kw)
        if any(mask):
            s.set_observed(np.array(mask, dtype=bool), np.array([o for o, m in zip(obs, mask) if m], dtype=float))
        return s
    s = data.Screen(treatment_names=np.array(tn[:R]), treatment_doses=np.array(td[:R], dtype=float),
                    sample_names=np.array(sn[:R]), plate_names=np.array(pn[:R]),
                    observations=np.array(obs, dtype=float), observation_mask=np.array(mask, dtype=bool),
                    control_treatment_name=ctrl, **kw)
    return s


def _flat(x):
    if isinstance(x, list):
        out = []
        for v in x:
            out.extend(_flat(v))
        return out
    return [x]


FIELDS = ["treatment_names", "treatment_doses", "sample_names", "plate_names", "observations", "observation_mask",
          "treatment_ids", "sample_ids", "plate_ids"]


def _snapshot(s):
    snap = {f: getattr(s, f).tolist() for f in FIELDS}
    snap["control_treatment_name"] = s.control_treatment_name
    for i, a in enumerate(s.treatment_mapping):
        snap["treatment_mapping[%d]" % i] = a.tolist()
    for i, a in enumerate(s.sample_mapping):
        snap["sample_mapping[%d]" % i] = a.tolist()
    for i, a in enumerate(s.plate_mapping):
        snap["plate_mapping[%d]" % i] = a.tolist()
    return snap


def _compare(ctx, a, b, label):
    for f in a:
        x, y = _flat(a[f]), _flat(b[f])
        ok = len(x) == len(y)
        if ok:
            for u, v in zip(x, y):
                ok = ctx.And(ok, ctx.same(u, v))
        ctx.prove(ok, "%s: %s identical" % (label, f), key="%s differs after save/load" % f)


def h_screen(ctx, cfg):
    data = ctx.mod("batchie.data")
    ctx.f32_visible(True)
    s = _build(ctx, data, cfg)
    before = _snapshot(s)
    cur = s
    for c in range(cfg["cycles"]):
        fn = ctx.tmp("screen_%d.h5" % c)
        cur.save_h5(fn)
        cur = data.Screen.load_h5(fn)
        after = _snapshot(cur)
        if c == 0:
            ctx.observe("ids", [after["treatment_ids"], after["sample_ids"], after["plate_ids"]])
        _compare(ctx, before, after, "cycle %d" % (c + 1))
    # histories on one path name: a loaded screen is an object of its own (changing it changes neither the file nor a later
    # load), and a file that is written again loads as what was written last
    np = ctx.np
    fn0 = ctx.tmp("screen_0.h5")
    first = data.Screen.load_h5(fn0)
    R = len(before["observation_mask"])
    first.set_observed(np.array([True] * R, dtype=bool), np.array([0.125 + 0.25 * i for i in range(R)], dtype=float))
    second = data.Screen.load_h5(fn0)
    _compare(ctx, before, _snapshot(second), "second load of one file, after the first loaded screen was modified")
    changed = _snapshot(first)
    first.save_h5(fn0)
    _compare(ctx, changed, _snapshot(data.Screen.load_h5(fn0)), "load after the file was written again")
    return len(before["treatment_mapping[0]"])


def h_space(ctx, cfg):
    data = ctx.mod("batchie.data")
    ctx.f32_visible(True)
    s = _build(ctx, data, dict(cfg, extra=0))
    es = data.ExperimentSpace.from_screen(s)
    fn = ctx.tmp("space.h5")
    es.save_h5(fn)
    back = data.ExperimentSpace.load_h5(fn)

    def snap(e):
        d = {"control_treatment_name": e.control_treatment_name}
        for i, a in enumerate(e.treatment_mapping):
            d["treatment_mapping[%d]" % i] = a.tolist()
        for i, a in enumerate(e.sample_mapping):
            d["sample_mapping[%d]" % i] = a.tolist()
        return d
    _compare(ctx, snap(es), snap(back), "experiment space")
    ctx.prove(ctx.And(back.n_unique_treatments == es.n_unique_treatments, back.n_unique_samples == es.n_unique_samples),
              "experiment space: embedding sizes identical")
    fn2 = ctx.tmp("space2.h5")
    back.save_h5(fn2)
    _compare(ctx, snap(es), snap(data.ExperimentSpace.load_h5(fn2)), "experiment space cycle 2")
    return 1


def h_merged(ctx, cfg):
    """a screen whose plates were merged in place (Plate.merge) is still a screen: it must round-trip too"""
    from .common import concrete_screen
    data = ctx.mod("batchie.data")
    ctx.f32_visible(True)
    rows = [("s1", "a", 1.0, "b", 1.0, "c"), ("s1", "a", 2.0, "b", 1.0, "c"), ("s2", "a", 1.0, "b", 1.0, "b"),
            ("s2", "a", 2.0, "", 0.0, "b"), ("s1", "b", 1.0, "", 0.0, "a"), ("s2", "b", 2.0, "a", 1.0, "a")][:cfg["rows"]]
    obs = [ctx.real_bits("ob%d" % r) for r in range(len(rows))]
    s = concrete_screen(ctx, rows, observations=obs, mask=[False] * len(rows))
    plates = s.plates
    i = int(ctx.int("mi", 0, len(plates) - 1))
    j = int(ctx.int("mj", 0, len(plates) - 1))
    if i == j:
        ctx.assume(False)
    plates[i].merge(plates[j])
    before = _snapshot(s)
    for k in [k for k in before if k.startswith("plate_mapping")]:
        del before[k]  # Plate.merge does not refresh the plate mapping; the property speaks of plate names and plate ids
    cur = s
    for c in range(2):
        fn = ctx.tmp("merged_%d.h5" % c)
        cur.save_h5(fn)
        cur = data.Screen.load_h5(fn)
        after = _snapshot(cur)
        if c == 0:
            ctx.observe("plates", [after["plate_names"], after["plate_ids"]])
        for k in [k for k in after if k.startswith("plate_mapping")]:
            del after[k]
        _compare(ctx, before, after, "merged screen, cycle %d" % (c + 1))
    return [i, j]


def run(ctx, cfg):
    return {"screen": h_screen, "space": h_space, "merged": h_merged}[cfg["h"]](ctx, cfg)
