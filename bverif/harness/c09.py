"""C09 - predictions are pure, row-wise, treatment-order-symmetric and control-neutral."""
PROPERTY = "C09"
LEVEL = "model_checking"
FUNCTIONS = [
    "batchie.common.copy_array_with_control_treatments_set_to_zero",
    "batchie.models.sparse_combo.predict / predict_single_drug",
    "batchie.models.sparse_combo.SparseDrugComboMCMCSample.predict_viability / predict_conditional_mean / predict_conditional_variance",
    "batchie.models.sparse_combo_interaction.SparseDrugComboInteractionMCMCSample.predict_viability / predict_conditional_mean / predict_conditional_variance",
    "batchie.models.main.predict_viability_all / predict_mean_all / predict_variance_all / predict_mean_avg / predict_viability_avg",
]
BOUNDS = {
    "quick": "nS=2 samples, nT=3 treatments, D=2 embedding dims, N=2 rows, every id pattern (sample in [0,nS), treatment in [-1,nT)) enumerated by the solver, plus a fully symbolic-id (ite-merged) arity-1 run; all parameters symbolic reals; 3 posterior samples for the stacked/averaged helpers; the sample's parameter dictionaries compared before / after prediction; arity-2 and arity-1 predictions on 4 rows (thorough: 5 rows, 3 samples) with every sample pattern and a fixed treatment pattern",
    "thorough": "nS=3, nT=4, D=3, N=2 rows, every id pattern; symbolic-id runs for arity 1 and 2; helpers with 3 posterior samples on N=3",
}
ASSUMPTIONS = [
    "expit/exp/log are uninterpreted functions (equalities hold for any function in their place); floats are reals",
    "ids lie inside the embeddings (C01/C03 bound them): sample id in [0,nS), treatment id in [-1,nT)",
    "precision > 0",
]
OUTSIDE = ["IEEE evaluation order / rounding", "ids outside the embedding"]
RULE = "one path per id pattern (solver-enumerated) with all parameters symbolic; in the symbolic-id configurations ids are merged into ite-chains (negative-index wrap-around included)."
BUDGET_S = {"quick": 600, "thorough": 3000}
PROVE_TIMEOUT_MS = 120000


def configs(tier, seed):
    q = tier == "quick"
    nS, nT, D, N = (2, 3, 2, 2) if q else (3, 4, 3, 2)
    out = [
        dict(name="combo arity2", h="combo2", nS=nS, nT=nT, D=D, N=N),
        dict(name="combo arity1", h="combo1", nS=nS, nT=nT, D=D, N=N),
        dict(name="interaction mean", h="inter", nS=nS, nT=nT, D=D, N=N),
        dict(name="interaction viability", h="inter_viab", nS=2, nT=2, D=1, N=2),
        dict(name="helpers", h="helpers", nS=2, nT=2 if q else 3, D=1 if q else 2, N=2 if q else 3, T=3),
        dict(name="control-copy kernel", h="kernel", nT=3, D=2, N=3),
        dict(name="combo arity1 symbolic-ids", h="combo1", nS=2, nT=3, D=2, N=2, symbolic_ids=True),
        # rows not grouped by sample (first and last row of one sample, another one in between)
        dict(name="combo arity2, %d rows, every sample pattern" % (4 if q else 5), h="combo2", nS=2 if q else 3, nT=3, D=1, N=4 if q else 5, symbolic_ids="samples"),
        dict(name="combo arity1, 4 rows, every sample pattern", h="combo1", nS=2, nT=3, D=1, N=4, symbolic_ids="samples"),
    ]
    for T in ((65, 130) if q else (1, 2, 7, 33, 64, 65, 100, 128, 129, 130, 257, 300)):
        out.append(dict(name="helpers on %d posterior samples" % T, h="helpers_many", T=T, N=2, nT=2))
    if not q:
        out.append(dict(name="combo arity2 symbolic-ids one row", h="combo2", nS=2, nT=3, D=1, N=1, symbolic_ids=True))
    return out


def fixtures(cfg):
    import random
    r = random.Random(7)
    out = []
    for _ in range(3):
        v = {}
        for k in range(64):
            v["x%d" % k] = r.uniform(-1.5, 1.5)
        nS, nT, N = cfg.get("nS", 2), cfg["nT"], cfg["N"]
        for i in range(N):
            v["s%d" % i] = r.randrange(nS)
            v["a%d" % i] = r.randrange(-1, nT)
            v["b%d" % i] = r.randrange(-1, nT)
        if cfg["h"] == "helpers_many":
            for t in range(cfg["T"]):
                for i in range(cfg["N"]):
                    v["hm%d_%d" % (t, i)] = r.uniform(-1.5, 1.5)
                    v["hv%d_%d" % (t, i)] = r.uniform(0.01, 0.99)
        v["prec"] = 2.5
        for t in range(4):
            v["prec%d" % t] = 0.5 + t
        out.append(v)
    return out


class _Data:
    """duck-typed ScreenBase: the prediction code reads only these attributes"""

    def __init__(self, np, sample_ids, treatment_ids, arity):
        self.sample_ids = np.array(sample_ids, dtype=int)
        self.treatment_ids = np.array(treatment_ids, dtype=int).reshape(len(sample_ids), arity)
        self.treatment_arity = arity
        self.size = len(sample_ids)
        self._np = np

    # the derived read-only attributes of ScreenBase, computed the way ScreenBase computes them
    @property
    def unique_sample_ids(self):
        return self._np.unique(self.sample_ids)

    @property
    def unique_treatments(self):
        return self._np.setdiff1d(self._np.unique(self.treatment_ids), [-1])

    @property
    def n_unique_samples(self):
        return len(self.unique_sample_ids)

    @property
    def n_unique_treatments(self):
        return len(self.unique_treatments)


class _P:
    """symbolic parameter block, numbered so that fixtures can fill it"""

    def __init__(self, ctx, prefix=""):
        self.ctx, self.k, self.prefix = ctx, 0, prefix

    def real(self):
        v = self.ctx.real("%sx%d" % (self.prefix, self.k))
        self.k += 1
        return v

    def mat(self, n, m):
        return [[self.real() for _ in range(m)] for _ in range(n)]

    def vec(self, n):
        return [self.real() for _ in range(n)]


def _ids(ctx, N, nS, nT, arity=2, symbolic=False):
    """ids are solver variables; unless symbolic=True every feasible id pattern becomes its own path
    (the obligations are then pure polynomial identities, which z3 decides in milliseconds)"""
    s = [ctx.int("s%d" % i, 0, nS - 1) for i in range(N)]
    a = [ctx.int("a%d" % i, -1, nT - 1) for i in range(N)]
    b = [ctx.int("b%d" % i, -1, nT - 1) for i in range(N)] if arity == 2 else None
    if symbolic == "samples":
        # longer screens: the sample of every row is solver-chosen, the treatments are a fixed pattern (controls in either slot)
        pat = [(0, 1), (1, -1), (-1, 0), (nT - 1, 0), (-1, -1)]
        s = [int(x) for x in s]
        a = [pat[i % len(pat)][0] for i in range(N)]
        b = [pat[i % len(pat)][1] for i in range(N)] if arity == 2 else None
        return s, a, b
    if not symbolic:
        s, a = [int(x) for x in s], [int(x) for x in a]
        b = [int(x) for x in b] if b is not None else None
    return s, a, b


def _sel(ctx, rows, i):
    """rows[i] for a symbolic/concrete in-range index i (no wrap-around)"""
    r = rows[-1]
    for j in range(len(rows) - 2, -1, -1):
        if isinstance(r, list):
            r = [ctx.ite(i == j, x, y) for x, y in zip(rows[j], r)]
        else:
            r = ctx.ite(i == j, rows[j], r)
    return r


def _selz(ctx, rows, t):
    """embedding row of treatment t, zero for the control sentinel"""
    r = _sel(ctx, rows, t)
    if isinstance(r, list):
        return [ctx.ite(t == -1, 0.0, x) for x in r]
    return ctx.ite(t == -1, 0.0, r)


def _ref_mean(ctx, P, s, a, b):
    W, W0, V2, V1, V0, alpha = P
    w = _sel(ctx, W, s)
    m = alpha + _sel(ctx, W0, s) + _selz(ctx, V0, a)
    v1a = _selz(ctx, V1, a)
    if b is None:
        for d in range(len(w)):
            m = m + w[d] * v1a[d]
        return m
    m = m + _selz(ctx, V0, b)
    v1b, v2a, v2b = _selz(ctx, V1, b), _selz(ctx, V2, a), _selz(ctx, V2, b)
    for d in range(len(w)):
        m = m + w[d] * (v1a[d] + v1b[d]) + w[d] * v2a[d] * v2b[d]
    return m


def _mk_sample(ctx, sc, np, nS, nT, D, prefix=""):
    p = _P(ctx, prefix)
    W, W0, V2, V1, V0 = p.mat(nS, D), p.vec(nS), p.mat(nT, D), p.mat(nT, D), p.vec(nT)
    alpha = p.real()
    prec = ctx.real(prefix + "prec", positive=True)
    th = sc.SparseDrugComboMCMCSample(W=np.array(W, dtype=float), W0=np.array(W0, dtype=float),
                                      V2=np.array(V2, dtype=float), V1=np.array(V1, dtype=float),
                                      V0=np.array(V0, dtype=float), alpha=alpha, precision=prec)
    return th, (W, W0, V2, V1, V0, alpha), prec


def _params(th):
    """the sample as its own interface describes it (what ThetaHolder.save_h5 writes and equals() compares)"""
    out = {}
    for kind in ("private_parameters_dict", "shared_parameters_dict"):
        for k, v in getattr(th, kind)().items():
            out[(kind, k)] = v.tolist() if hasattr(v, "tolist") else v
    return out


class _Snap(list):
    pass


def _snapshot(th, data):
    arrs = [th.W, th.W0, th.V2, th.V1, th.V0] if hasattr(th, "V1") else [th.W, th.V2]
    arrs += [data.sample_ids, data.treatment_ids]
    snap = _Snap((a, a.tolist()) for a in arrs)
    snap.th, snap.params = th, _params(th)
    return snap


def _flat(x):
    if isinstance(x, list):
        out = []
        for v in x:
            out.extend(_flat(v))
        return out
    return [x]


def _unchanged(ctx, snap, label):
    ok = True
    for arr, before in snap:
        for x, y in zip(_flat(arr.tolist()), _flat(before)):
            ok = ctx.And(ok, ctx.eq(x, y))
    ctx.prove(ok, label)
    if getattr(snap, "th", None) is not None:
        now = _params(snap.th)
        ctx.prove(sorted(now, key=str) == sorted(snap.params, key=str),
                  "prediction leaves the sample's parameter set as it was (what is saved with it and compared by equals)",
                  key="prediction changed the posterior sample's parameters")
        same = True
        for k in snap.params:
            if k in now:
                a, b = _flat(now[k]), _flat(snap.params[k])
                same = ctx.And(same, len(a) == len(b), *[ctx.eq(x, y) for x, y in zip(a, b)])
        ctx.prove(same, "prediction leaves every parameter of the sample unchanged", key="prediction changed the posterior sample's parameters")


def _viab(ctx, np, sp, m):
    return np.clip(sp(m), a_min=0.01, a_max=0.99)


def h_combo(ctx, cfg, arity):
    np = ctx.np
    sc = ctx.mod("batchie.models.sparse_combo")
    expit = sc.expit
    nS, nT, D, N = cfg["nS"], cfg["nT"], cfg["D"], cfg["N"]
    th, P, prec = _mk_sample(ctx, sc, np, nS, nT, D)
    s, a, b = _ids(ctx, N, nS, nT, arity, symbolic=cfg.get("symbolic_ids", False))
    rows = [[a[i], b[i]] for i in range(N)] if arity == 2 else [[a[i]] for i in range(N)]
    data = _Data(np, s, rows, arity)
    snap = _snapshot(th, data)
    mean = th.predict_conditional_mean(data).tolist()
    viab = th.predict_viability(data).tolist()
    var = th.predict_conditional_variance(data).tolist()
    ctx.observe("mean", mean); ctx.observe("viab", viab); ctx.observe("var", var)
    _unchanged(ctx, snap, "prediction mutates neither the posterior sample nor the screen arrays")
    ctx.prove(len(mean) == N and len(viab) == N and len(var) == N, "one prediction per experiment")
    for i in range(N):
        ref = _ref_mean(ctx, P, s[i], a[i], b[i] if arity == 2 else None)
        ctx.prove(ctx.eq(mean[i], ref), "mean = intercepts + first-order + second-order terms of the row's sample and non-control treatments")
        ctx.prove(ctx.eq(viab[i], _viab(ctx, np, expit, ref)), "viability = clip(expit(mean), 0.01, 0.99)")
        ctx.prove(ctx.And(ctx.eq(var[i] * prec, 1.0), var[i] > 0), "variance = 1/precision > 0 for every row")
        # row-wise purity: predicting the row alone gives the same value
        one = _Data(np, [s[i]], [rows[i]], arity)
        ctx.prove(ctx.eq(th.predict_conditional_mean(one).tolist()[0], mean[i]), "prediction on a one-row subset equals the entry of the whole")
    if N >= 2:
        rev = _Data(np, s[::-1], rows[::-1], arity)
        rm = th.predict_viability(rev).tolist()
        for i in range(N):
            ctx.prove(ctx.eq(rm[N - 1 - i], viab[i]), "prediction follows the row order of the (sub)set")
    if arity == 2:
        sw = _Data(np, s, [[b[i], a[i]] for i in range(N)], 2)
        swm = th.predict_conditional_mean(sw).tolist()
        single_a = th.predict_conditional_mean(_Data(np, s, [[a[i]] for i in range(N)], 1)).tolist()
        single_b = th.predict_conditional_mean(_Data(np, s, [[b[i]] for i in range(N)], 1)).tolist()
        W, W0, V2, V1, V0, alpha = P
        for i in range(N):
            ctx.prove(ctx.eq(swm[i], mean[i]), "swapping the treatment columns changes nothing")
            ctx.prove(ctx.Or(b[i] != -1, ctx.eq(mean[i], single_a[i])), "pair with control in column 2 predicts like the single agent")
            ctx.prove(ctx.Or(a[i] != -1, ctx.eq(mean[i], single_b[i])), "pair with control in column 1 predicts like the single agent")
            ctx.prove(ctx.Or(a[i] != -1, b[i] != -1, ctx.eq(mean[i], alpha + _sel(ctx, W0, s[i]))), "both controls: intercept terms only")
    return N


def _mk_inter(ctx, sci, np, nS, nT, D, lookup):
    p = _P(ctx)
    W, V2 = p.mat(nS, D), p.mat(nT, D)
    prec = ctx.real("prec", positive=True)
    th = sci.SparseDrugComboInteractionMCMCSample(W=np.array(W, dtype=float), V2=np.array(V2, dtype=float),
                                                  precision=prec, single_effect_lookup=lookup)
    return th, W, V2, prec


def h_inter(ctx, cfg):
    np = ctx.np
    sci = ctx.mod("batchie.models.sparse_combo_interaction")
    nS, nT, D, N = cfg["nS"], cfg["nT"], cfg["D"], cfg["N"]
    th, W, V2, prec = _mk_inter(ctx, sci, np, nS, nT, D, {})
    s, a, b = _ids(ctx, N, nS, nT)
    rows = [[a[i], b[i]] for i in range(N)]
    data = _Data(np, s, rows, 2)
    snap = _snapshot(th, data)
    mean = th.predict_conditional_mean(data).tolist()
    var = th.predict_conditional_variance(data).tolist()
    ctx.observe("mean", mean); ctx.observe("var", var)
    _unchanged(ctx, snap, "prediction mutates neither the posterior sample nor the screen arrays")
    sw = th.predict_conditional_mean(_Data(np, s, [[b[i], a[i]] for i in range(N)], 2)).tolist()
    for i in range(N):
        w, va, vb = _sel(ctx, W, s[i]), _selz(ctx, V2, a[i]), _selz(ctx, V2, b[i])
        ref = 0.0
        for d in range(D):
            ref = ref + w[d] * va[d] * vb[d]
        ctx.prove(ctx.eq(mean[i], ref), "interaction = sum_d W[s,d] V2[t1,d] V2[t2,d] with control rows zero")
        ctx.prove(ctx.Or(ctx.And(a[i] != -1, b[i] != -1), ctx.eq(mean[i], 0.0)), "a control treatment contributes no interaction")
        ctx.prove(ctx.eq(sw[i], mean[i]), "swapping the treatment columns changes nothing")
        ctx.prove(ctx.And(ctx.eq(var[i] * prec, 1.0), var[i] > 0), "variance = 1/precision > 0 for every row")
        one = _Data(np, [s[i]], [rows[i]], 2)
        ctx.prove(ctx.eq(th.predict_conditional_mean(one).tolist()[0], mean[i]), "prediction on a one-row subset equals the entry of the whole")
    return N


def h_inter_viab(ctx, cfg):
    """viability of the interaction model: clip(exp(interaction + log(clip(e1*e2))))"""
    np = ctx.np
    sci = ctx.mod("batchie.models.sparse_combo_interaction")
    nS, nT, D, N = cfg["nS"], cfg["nT"], cfg["D"], cfg["N"]
    lookup = {}
    k = 40
    for c in range(nS):
        lookup[(c, -1)] = 1.0
        for t in range(nT):
            lookup[(c, t)] = ctx.real("x%d" % k)
            k += 1
    th, W, V2, prec = _mk_inter(ctx, sci, np, nS, nT, D, lookup)
    s, a, b = _ids(ctx, N, nS, nT)
    s, a, b = [int(x) for x in s], [int(x) for x in a], [int(x) for x in b]  # dictionary keys: enumerated by the solver
    data = _Data(np, s, [[a[i], b[i]] for i in range(N)], 2)
    viab = th.predict_viability(data).tolist()
    mean = th.predict_conditional_mean(data).tolist()
    sw = th.predict_viability(_Data(np, s, [[b[i], a[i]] for i in range(N)], 2)).tolist()
    ctx.observe("viab", viab)
    for i in range(N):
        se = np.clip(lookup[(s[i], a[i])] * lookup[(s[i], b[i])], a_min=0.01, a_max=0.99)
        ref = np.clip(np.exp(mean[i] + np.log(se)), a_min=0.01, a_max=0.99)
        ctx.prove(ctx.eq(viab[i], ref), "interaction-model viability = clip(exp(interaction + log(clip(e1*e2))), 0.01, 0.99)")
        ctx.prove(ctx.eq(sw[i], viab[i]), "swapping the treatment columns changes nothing")
    return N


def h_helpers(ctx, cfg):
    np = ctx.np
    sc = ctx.mod("batchie.models.sparse_combo")
    core = ctx.mod("batchie.core")
    mm = ctx.mod("batchie.models.main")
    nS, nT, D, N, T = cfg["nS"], cfg["nT"], cfg["D"], cfg["N"], cfg["T"]
    holder = core.ThetaHolder(n_thetas=T)
    thetas = []
    for t in range(T):
        th, P, prec = _mk_sample(ctx, sc, np, nS, nT, D, prefix="t%d_" % t if t else "")
        holder.add_theta(th)
        thetas.append((th, prec))
    s, a, b = _ids(ctx, N, nS, nT)
    data = _Data(np, s, [[a[i], b[i]] for i in range(N)], 2)
    va = mm.predict_viability_all(data, holder).tolist()
    ma = mm.predict_mean_all(data, holder).tolist()
    vr = mm.predict_variance_all(data, holder).tolist()
    mavg = mm.predict_mean_avg(data, holder).tolist()
    vavg = mm.predict_viability_avg(data, holder).tolist()
    ctx.observe("va", va); ctx.observe("mavg", mavg)
    ctx.prove(len(va) == T and len(ma) == T and len(vr) == T, "one row per posterior sample")
    for t, (th, prec) in enumerate(thetas):
        v = th.predict_viability(data).tolist()
        m = th.predict_conditional_mean(data).tolist()
        for i in range(N):
            ctx.prove(ctx.eq(va[t][i], v[i]), "predict_viability_all row t is sample t's prediction (holder order)")
            ctx.prove(ctx.eq(ma[t][i], m[i]), "predict_mean_all row t is sample t's prediction (holder order)")
            ctx.prove(ctx.eq(vr[t][i] * prec, 1.0), "predict_variance_all row t is sample t's variance")
    for i in range(N):
        sm, sv = 0.0, 0.0
        for t in range(T):
            sm = sm + ma[t][i]
            sv = sv + va[t][i]
        ctx.prove(ctx.eq(mavg[i] * T, sm), "predict_mean_avg is the exact mean over posterior samples")
        ctx.prove(ctx.eq(vavg[i] * T, sv), "predict_viability_avg is the exact mean over posterior samples")
    return T


class _StubTheta:
    """a posterior sample reduced to what the averaging helpers read: its predictions on the screen"""

    def __init__(self, np, mean, viab, prec):  # prec: the value reported as this sample's variance
        self.np, self.mean, self.viab, self.prec = np, mean, viab, prec

    def predict_conditional_mean(self, data):
        return self.np.array(self.mean, dtype=float)

    def predict_viability(self, data):
        return self.np.array(self.viab, dtype=float)

    def predict_conditional_variance(self, data):
        return self.np.array([self.prec] * len(self.mean), dtype=float)


def h_helpers_many(ctx, cfg):
    """the helpers on collections whose size passes every plausible internal block size: exact mean, holder order"""
    np = ctx.np
    core = ctx.mod("batchie.core")
    mm = ctx.mod("batchie.models.main")
    T, N = cfg["T"], cfg["N"]
    holder = core.ThetaHolder(n_thetas=T)
    mean = [[ctx.real("hm%d_%d" % (t, i)) for i in range(N)] for t in range(T)]
    viab = [[ctx.real("hv%d_%d" % (t, i)) for i in range(N)] for t in range(T)]
    for t in range(T):
        holder.add_theta(_StubTheta(np, mean[t], viab[t], 1.0 + t))
    data = _Data(np, [0] * N, [[0, 1]] * N, 2)
    va = mm.predict_viability_all(data, holder).tolist()
    ma = mm.predict_mean_all(data, holder).tolist()
    vr = mm.predict_variance_all(data, holder).tolist()
    mavg = mm.predict_mean_avg(data, holder).tolist()
    vavg = mm.predict_viability_avg(data, holder).tolist()
    ctx.observe("mavg", mavg)
    ctx.prove(len(va) == T and len(ma) == T and len(vr) == T, "one row per posterior sample")
    ok_rows = True
    for t in range(T):
        for i in range(N):
            ok_rows = ctx.And(ok_rows, ctx.eq(va[t][i], viab[t][i]), ctx.eq(ma[t][i], mean[t][i]), ctx.eq(vr[t][i], 1.0 + t))
    ctx.prove(ok_rows, "the *_all helpers return sample t's prediction in row t (holder order) for every t")
    for i in range(N):
        sm, sv = 0.0, 0.0
        for t in range(T):
            sm = sm + mean[t][i]
            sv = sv + viab[t][i]
        ctx.prove(ctx.eq(mavg[i] * T, sm), "predict_mean_avg is the exact mean over posterior samples", key="predict_mean_avg is not the mean (many samples)")
        ctx.prove(ctx.eq(vavg[i] * T, sv), "predict_viability_avg is the exact mean over posterior samples", key="predict_viability_avg is not the mean (many samples)")
    if T <= 70:
        # a collection that holds fewer samples than it declares: the stacked helpers refuse it, or return rows for the
        # samples that exist - never a row that belongs to no sample
        part = core.ThetaHolder(n_thetas=T + 1)
        for t in range(T):
            part.add_theta(_StubTheta(np, mean[t], viab[t], 1.0 + t))
        for name, f in (("predict_viability_all", mm.predict_viability_all), ("predict_mean_all", mm.predict_mean_all)):
            try:
                got = f(data, part).tolist()
            except ValueError:
                ctx.prove(True, "the stacked helpers refuse a collection with missing samples")
                continue
            ctx.prove(len(got) == T, "%s: one row per posterior sample of the collection, no row that belongs to no sample" % name,
                      key="stacked helper returned a row for a missing sample")
    return T


def h_kernel(ctx, cfg):
    """copy_array_with_control_treatments_set_to_zero: gather copy, zero exactly the control rows, source untouched"""
    np = ctx.np
    common = ctx.mod("batchie.common")
    nT, D, N = cfg["nT"], cfg["D"], cfg["N"]
    p = _P(ctx)
    M = p.mat(nT, D)
    v = p.vec(nT)
    t = [ctx.int("a%d" % i, -1, nT - 1) for i in range(N)]
    A, V, Tarr = np.array(M, dtype=float), np.array(v, dtype=float), np.array(t, dtype=int)
    r2 = common.copy_array_with_control_treatments_set_to_zero(A, Tarr).tolist()
    r1 = common.copy_array_with_control_treatments_set_to_zero(V, Tarr).tolist()
    ctx.observe("r2", r2); ctx.observe("r1", r1)
    for i in range(N):
        row = _selz(ctx, M, t[i])
        for d in range(D):
            ctx.prove(ctx.eq(r2[i][d], row[d]), "2-d gather: embedding row of the treatment, zero for control")
        ctx.prove(ctx.eq(r1[i], _selz(ctx, v, t[i])), "1-d gather: value of the treatment, zero for control")
    ok = True
    for x, y in zip(_flat(A.tolist()) + _flat(V.tolist()), _flat(M) + _flat(v)):
        ok = ctx.And(ok, ctx.eq(x, y))
    ctx.prove(ok, "the source embedding is not modified (copy, not view)")
    return N


def run(ctx, cfg):
    h = cfg["h"]
    if h == "combo2":
        return h_combo(ctx, cfg, 2)
    if h == "combo1":
        return h_combo(ctx, cfg, 1)
    return {"inter": h_inter, "inter_viab": h_inter_viab, "helpers": h_helpers, "helpers_many": h_helpers_many, "kernel": h_kernel}[h](ctx, cfg)
