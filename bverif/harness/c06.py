"""C06 - every candidate plate is scored once; the minimum-score allowed plate is chosen."""
from .common import cli_main, cli_argv, concrete_screen

PROPERTY = "C06"
LEVEL = "model_checking"
FUNCTIONS = [
    "batchie.scoring.main.score_chunk", "batchie.scoring.main.select_next_plate",
    "batchie.scoring.main.ChunkedScoresHolder.add_score/get_score/combine/concat/save_h5/load_h5/plate_id_with_minimum_score",
    "batchie.data.filter_dataset_to_unique_treatments", "batchie.common.select_unique_zipped_numpy_arrays",
    "batchie.data.ScreenSubset.combine / concat", "batchie.scoring.size.SizeScorer.score", "batchie.scoring.rand.RandomScorer.score",
    "batchie.cli.calculate_scores.main / batchie.cli.select_next_plate.main (through get_parser / get_args with sys.argv set; class lookup by name answered from the loaded modules)",
    "batchie.policies.k_per_sample.KPerSamplePlatePolicy.filter_eligible_plates",
]
BOUNDS = {
    "quick": "screens with P=3 and P=4 plates (5-6 rows, duplicate conditions shared between candidate and batch plates), every per-plate observed pattern, every batch (subset of plate ids), every n_chunks in 1..P+1, symbolic real scores (ties reachable) plus a -inf score, every order of the chunk files, with and without the k-per-sample policy (k in 1..2); one screen of 300 plates (winner and batch among ids 255, 256, 298, 299); a 4-plate structure in which every plate holds a condition of its own, batch ids in either order; one generator object serves all chunk calls of a round (its state differs from call to call)",
    "thorough": "P up to 6 (9 rows) for coverage, up to 5 for selection, n_chunks up to P+2, policy k up to 3 on 4-6 single-sample plates, and 24 generated screen structures of up to 5 plates",
}
ASSUMPTIONS = [
    "the scorer is a recording stub returning a fresh symbolic real per plate (optionally one concrete -inf); NaN scores excluded",
    "HDF5 faithful-store model; in-memory text file for the selected-plate output",
    "names/doses concrete per structure (arbitrary names: C01)",
]
OUTSIDE = ["NaN scores", "more plates than the bound"]
RULE = "observed pattern, batch, n_chunks and chunk-file order are solver-enumerated; scores stay symbolic so that every allowed plate can be the minimum."
BUDGET_S = {"quick": 600, "thorough": 3000}
TASK_QUOTA = 60

# (sample, t1, d1, t2, d2, plate)
STRUCT = {
    3: [("s1", "a", 1.0, "b", 1.0, "p0"), ("s1", "a", 1.0, "b", 1.0, "p1"), ("s1", "c", 1.0, "b", 1.0, "p1"),
        ("s2", "a", 1.0, "b", 1.0, "p2"), ("s2", "a", 1.0, "b", 1.0, "p0")],
    4: [("s1", "a", 1.0, "b", 1.0, "p0"), ("s1", "a", 1.0, "b", 1.0, "p1"), ("s2", "c", 1.0, "b", 1.0, "p2"),
        ("s2", "a", 1.0, "b", 1.0, "p3"), ("s2", "c", 1.0, "b", 1.0, "p3"), ("s1", "b", 1.0, "a", 1.0, "p0")],
    5: [("s1", "a", 1.0, "b", 1.0, "p0"), ("s1", "a", 1.0, "b", 1.0, "p1"), ("s2", "c", 1.0, "b", 1.0, "p2"),
        ("s2", "a", 1.0, "b", 1.0, "p3"), ("s2", "c", 1.0, "b", 1.0, "p3"), ("s1", "b", 1.0, "a", 1.0, "p4"),
        ("s1", "a", 1.0, "b", 1.0, "p4")],
    6: [("s1", "a", 1.0, "b", 1.0, "p0"), ("s1", "a", 1.0, "b", 1.0, "p1"), ("s2", "c", 1.0, "b", 1.0, "p2"),
        ("s2", "a", 1.0, "b", 1.0, "p3"), ("s2", "c", 1.0, "b", 1.0, "p3"), ("s1", "b", 1.0, "a", 1.0, "p4"),
        ("s1", "a", 1.0, "b", 1.0, "p4"), ("s2", "c", 1.0, "b", 1.0, "p5"), ("s1", "a", 1.0, "", 0.0, "p5")],
    # single-agent wells next to combinations that use the highest treatment id: (a, c) and (b, control) are different conditions
    "S3": [("s1", "a", 1.0, "c", 1.0, "p0"), ("s1", "b", 1.0, "", 0.0, "p1"), ("s1", "a", 1.0, "b", 1.0, "p2"),
           ("s1", "", 0.0, "c", 1.0, "p1"), ("s2", "b", 1.0, "c", 1.0, "p0"), ("s2", "c", 1.0, "", 0.0, "p2")],
    # every plate holds a condition that no other plate holds (a batch plate left out of the union is then missed), next to
    # conditions shared between plates
    "U4": [("s1", "a", 1.0, "b", 1.0, "p0"), ("s1", "c", 1.0, "d", 1.0, "p0"), ("s1", "a", 1.0, "c", 1.0, "p1"), ("s1", "c", 1.0, "d", 1.0, "p1"),
           ("s2", "a", 1.0, "d", 1.0, "p2"), ("s2", "b", 1.0, "d", 1.0, "p2"), ("s2", "b", 1.0, "c", 1.0, "p3"), ("s2", "a", 1.0, "d", 1.0, "p3")],
}
# single-sample plates for the policy configurations: (sample of plate i)
SINGLE = {4: ["s1", "s1", "s2", "s2"], 5: ["s1", "s1", "s1", "s2", "s2"], 6: ["s1", "s1", "s2", "s2", "s3", "s1"]}


def configs(tier, seed):
    q = tier == "quick"
    out = []
    for P in ((3, 4) if q else (3, 4, 5, 6)):
        out.append(dict(name="coverage P=%d" % P, h="coverage", P=P, extra_chunks=1 if q else 2))
    out.append(dict(name="coverage P=3 with single-agent wells", h="coverage", P=3, struct="S3", extra_chunks=1))
    out.append(dict(name="coverage P=4, a condition of its own on every plate, batch ids in either order", h="coverage", P=4, struct="U4",
                    extra_chunks=0, batch_orders=True, second_round=False))
    for P in ((3,) if q else (3, 4, 5)):
        out.append(dict(name="select P=%d" % P, h="select", P=P, policy=None, neginf=False))
    for P in ((3,) if q else (3, 4)):
        out.append(dict(name="select P=%d with -inf" % P, h="select", P=P, policy=None, neginf=True))
    for k in ((1, 2) if q else (1, 2, 3)):
        for P in ((4,) if q else (4, 5, 6)):
            out.append(dict(name="select policy k=%d P=%d" % (k, P), h="select", P=P, policy=k, neginf=False))
    for P in ((3,) if q else (3, 4)):
        out.append(dict(name="cli P=%d" % P, h="cli", P=P))
        out.append(dict(name="cli P=%d, own argument parsers" % P, h="cli", P=P, argv=True))
    out.append(dict(name="holder", h="holder"))
    out.append(dict(name="300 plates (ids past 255)", h="many", P=300, chunks=2 if q else 3))
    if not q:
        # generated screen structures (retro_common.generated_family) with at most 5 plates
        from .retro_common import family
        n = 0
        for k in range(64):
            rows = family("G%d" % k)
            P = len(set(r[5] for r in rows))
            if P > 5 or n >= N_GENERATED:
                continue
            n += 1
            out.append(dict(name="coverage G%d (%d plates, %d rows)" % (k, P, len(rows)), h="coverage", P=P, fam="G%d" % k, extra_chunks=1))
            out.append(dict(name="select G%d (%d plates, %d rows)" % (k, P, len(rows)), h="select", P=P, fam="G%d" % k, policy=None, neginf=False))
    return out


N_GENERATED = 24


def fixtures(cfg):
    if cfg["h"] == "many":
        return [dict(n_chunks=2, winner=0, sc0=0.3, ord0=1)]
    v = dict(n_chunks=2, pol_k=2, batrev=True)
    for i in range(7):
        v["obs%d" % i] = i == 0
        v["bat%d" % i] = i == 1
        v["sc%d" % i] = [0.3, 0.1, 0.1, 0.7, 0.2, 0.9, 0.15][i]
        v["ord%d" % i] = 0
    v["done"] = 0
    v2 = dict(v, n_chunks=4, bat1=False, obs0=False, obs2=True, ord0=1)
    v3 = dict(v, n_chunks=1, bat1=False, bat0=True, obs0=False)
    return [v, v2, v3]


def _recording_scorer(ctx, core, log, score_of):
    class Rec(core.Scorer):
        def score(self, plates, distance_matrix, samples, rng, progress_bar):
            out = {}
            for k, p in plates.items():
                log.append((int(k), p.selection_vector.tolist()))
                out[k] = score_of(int(k))
            return out
    return Rec()


def _setup(ctx, cfg, single=False):
    np = ctx.np
    P = cfg["P"]
    if single:
        rows = [(SINGLE[P][i], "a", float(i + 1), "b", 1.0, "p%d" % i) for i in range(P)]
    elif cfg.get("fam"):
        from .retro_common import family
        rows = family(cfg["fam"])
    else:
        rows = STRUCT[cfg.get("struct", P)]
    pnames = sorted(set(r[5] for r in rows))
    observed = {p: ctx.is_true(ctx.bool("obs%d" % i)) for i, p in enumerate(pnames)}
    R = len(rows)
    screen = concrete_screen(ctx, rows, observations=[0.5] * R, mask=[observed[r[5]] for r in rows])
    pid = dict(zip(screen.plate_mapping[0].tolist(), [int(x) for x in screen.plate_mapping[1].tolist()]))
    batch = [pid[p] for i, p in enumerate(pnames) if ctx.is_true(ctx.bool("bat%d" % i))]
    if cfg.get("batch_orders") and len(batch) >= 2 and ctx.is_true(ctx.bool("batrev")):
        batch = batch[::-1]  # the ids of the batch plates arrive in the order they were selected, not sorted
    obs_ids = {pid[p] for p in pnames if observed[p]}
    rows_of = {pid[p]: [i for i in range(R) if rows[i][5] == p] for p in pnames}
    return screen, rows, pid, batch, obs_ids, rows_of


def _order(ctx, k):
    rest = list(range(k))
    out = []
    for i in range(k - 1):
        j = int(ctx.int("ord%d" % i, 0, len(rest) - 1))
        out.append(rest.pop(j))
    if rest:
        out.append(rest[0])
    return out


def all_same_list(ctx, a, b):
    if len(a) != len(b):
        return False
    r = True
    for x, y in zip(a, b):
        r = ctx.And(r, ctx.eq(x, y) if not (isinstance(x, float) and isinstance(y, float)) else x == y)
    return r


def h_coverage(ctx, cfg):
    core = ctx.mod("batchie.core")
    sm = ctx.mod("batchie.scoring.main")
    screen, rows, pid, batch, obs_ids, rows_of = _setup(ctx, cfg)
    P = cfg["P"]
    n_chunks = int(ctx.int("n_chunks", 1, P + cfg["extra_chunks"]))
    log = []
    scorer = _recording_scorer(ctx, core, log, lambda k: 1.0 + k)
    holders = []
    shared = ctx.rng("R")  # one generator object serves every chunk call of the round: its state differs from call to call
    for c in range(n_chunks):
        holders.append(sm.score_chunk(scorer, None, screen, None, rng=shared, n_chunks=n_chunks, chunk_index=c,
                                      batch_plate_ids=list(batch) if batch else None))
    want = sorted(p for p in rows_of if p not in obs_ids and p not in batch)
    got = sorted(k for k, _ in log)
    ctx.observe("scored", got)
    ctx.prove(got == want, "plates scored across all chunk indices = unobserved plates not in the batch, each exactly once",
              key="coverage of candidate plates")
    held = sorted(int(x) for h in holders for x in h.plate_ids.tolist()[:h.current_index])
    ctx.prove(held == want, "score holders contain one entry per scored plate")
    sid, tid = screen.sample_ids.tolist(), screen.treatment_ids.tolist()
    batch_rows = [i for b in batch for i in rows_of[b] if b in rows_of]
    # a batch plate that is itself observed still conditions the candidate (the statement speaks of 'the batch plates')
    for k, sel in log:
        union = sorted(set(rows_of[k]) | set(batch_rows)) if batch else rows_of[k]
        chosen = [i for i in range(len(rows)) if sel[i]]
        if not batch:
            ctx.prove(chosen == rows_of[k], "without a batch a candidate is scored on exactly its own experiments")
            continue
        ctx.prove(all(i in union for i in chosen), "with a batch a candidate is scored only on its own and the batch plates' experiments")
        ctx.prove(all(any(sel[j] for j in union if (sid[j], tuple(tid[j])) == (sid[i], tuple(tid[i]))) for i in union),
                  "every condition of the candidate and of every batch plate is among the experiments it is scored on",
                  key="batch conditioning: a batch plate's experiments are missing")
        conds = {}
        for i in union:
            conds.setdefault((sid[i], tuple(tid[i])), []).append(i)
        for key, members in conds.items():
            ctx.prove(sum(1 for i in members if sel[i]) == 1, "conditioned candidate keeps exactly one experiment per distinct condition of the union",
                      key="batch conditioning: one experiment per distinct condition")
    # next round on the same objects: one candidate plate is run and marked observed in place (all of its experiments), then
    # the chunks are scored again - the candidates are now the remaining unobserved plates
    if want and cfg.get("second_round", True):
        np = ctx.np
        R = len(rows)
        done = want[int(ctx.int("done", 0, len(want) - 1))]
        sel = [i in rows_of[done] for i in range(R)]
        screen.set_observed(np.array(sel, dtype=bool), np.array([0.5] * len(rows_of[done]), dtype=float))
        del log[:]
        for c in range(n_chunks):
            sm.score_chunk(scorer, None, screen, None, rng=ctx.rng("R%d" % c), n_chunks=n_chunks, chunk_index=c,
                           batch_plate_ids=list(batch) if batch else None)
        ctx.prove(sorted(k for k, _ in log) == [p for p in want if p != done],
                  "after a plate has been marked observed in place, the next round scores exactly the remaining unobserved plates",
                  key="coverage of candidate plates (second round on the same screen object)")
    return n_chunks


def h_select(ctx, cfg):
    np = ctx.np
    core = ctx.mod("batchie.core")
    sm = ctx.mod("batchie.scoring.main")
    single = cfg["policy"] is not None
    screen, rows, pid, batch, obs_ids, rows_of = _setup(ctx, cfg, single=single)
    P = cfg["P"]
    n_chunks = int(ctx.int("n_chunks", 1, 2 if single else 3))
    cand = sorted(p for p in rows_of if p not in obs_ids and p not in batch)
    scores = {}
    for i, p in enumerate(sorted(rows_of)):
        scores[p] = ctx.real("sc%d" % p)
    if cfg["neginf"] and cand:
        scores[cand[-1]] = float("-inf")
    log = []
    scorer = _recording_scorer(ctx, core, log, lambda k: scores[k])
    files = []
    for c in range(n_chunks):
        h = sm.score_chunk(scorer, None, screen, None, rng=ctx.rng("R"), n_chunks=n_chunks, chunk_index=c,
                           batch_plate_ids=list(batch) if batch else None)
        fn = ctx.tmp("scores_%d.h5" % c)
        h.save_h5(fn)
        files.append(fn)
    order = _order(ctx, n_chunks)
    combined = sm.ChunkedScoresHolder.concat([sm.ChunkedScoresHolder.load_h5(files[c]) for c in order])
    policy = None
    if single:
        kp = ctx.mod("batchie.policies.k_per_sample")
        policy = kp.KPerSamplePlatePolicy(cfg["policy"])
        plates = {p.plate_id: p for p in screen.plates}
        allowed_plates = policy.filter_eligible_plates(
            batch_plates=[plates[b] for b in sorted(batch)], unobserved_plates=[plates[c] for c in cand], rng=ctx.rng("Q"))
        allowed = sorted(int(p.plate_id) for p in allowed_plates)
    else:
        allowed = list(cand)
    mask_before, pids_before = screen.observation_mask.tolist(), screen.plate_ids.tolist()
    held_before = (combined.plate_ids.tolist(), list(combined.scores.tolist()))
    best = sm.select_next_plate(scores=combined, screen=screen, policy=policy, batch_plate_ids=list(batch), rng=ctx.rng("R2"))
    # selection reads: it leaves the screen and the combined scores as they were, so asking again gives the same answer
    ctx.prove(screen.observation_mask.tolist() == mask_before and screen.plate_ids.tolist() == pids_before
              and combined.plate_ids.tolist() == held_before[0] and all_same_list(ctx, list(combined.scores.tolist()), held_before[1]),
              "selection modifies neither the screen nor the combined scores", key="selection modified its inputs")
    again = sm.select_next_plate(scores=combined, screen=screen, policy=policy, batch_plate_ids=list(batch), rng=ctx.rng("R3"))
    ctx.prove((again is None) == (best is None) and (best is None or ctx.is_true(again.plate_id == best.plate_id)) if True else True,
              "asking for the next plate again (same scores, same batch) returns the same plate", key="repeated selection differs")
    if best is None:
        ctx.prove(not allowed, "nothing is returned only when no plate is allowed", key="None returned although a plate is allowed")
        return None
    ctx.prove(bool(allowed), "a plate is returned only when some plate is allowed")
    bid = best.plate_id
    in_allowed = False
    for a in allowed:
        in_allowed = ctx.Or(in_allowed, bid == a)
    ctx.prove(in_allowed, "returned plate is unobserved, not in the batch and allowed by the policy", key="returned plate not allowed")
    for a in allowed:
        not_smaller = ctx.Or(*[ctx.And(bid == b, ctx.Not(scores[a] < scores[b])) for b in allowed])
        ctx.prove(not_smaller, "no allowed plate has a strictly lower score than the returned plate", key="returned plate is not a minimum")
    return order


def h_many(ctx, cfg):
    """plate ids beyond every narrow integer range that could be used in a chunk file: 300 single-row plates, the winner
    and the batch among the highest ids; scores saved, loaded and combined in a solver-chosen order"""
    np = ctx.np
    core = ctx.mod("batchie.core")
    sm = ctx.mod("batchie.scoring.main")
    P = cfg["P"]
    rows = [("s%d" % (i % 3), "a", float(i + 1), "b", 1.0, "p%04d" % i) for i in range(P)]
    screen = concrete_screen(ctx, rows, observations=[0.5] * P, mask=[i < 2 for i in range(P)])
    pid = dict(zip(screen.plate_mapping[0].tolist(), [int(x) for x in screen.plate_mapping[1].tolist()]))
    ids = sorted(pid.values())
    obs_ids = {pid["p%04d" % i] for i in range(2)}
    batch = [ids[-2]]
    n_chunks = int(ctx.int("n_chunks", 1, cfg["chunks"]))
    # the minimum sits at one of the interesting ids (255, 256, the last one, an ordinary one); every other score is larger
    cand_w = [i for i in ((ids[-1], 256, 255, 17) if cfg["chunks"] > 2 else (256, ids[-1])) if i not in obs_ids and i not in batch]
    winner = cand_w[int(ctx.int("winner", 0, len(cand_w) - 1))]
    wscore = ctx.real("sc0")
    score_of = lambda k: wscore if k == winner else wscore + 1.0 + 0.001 * k
    log = []
    scorer = _recording_scorer(ctx, core, log, score_of)
    files = []
    for c in range(n_chunks):
        h = sm.score_chunk(scorer, None, screen, None, rng=ctx.rng("R"), n_chunks=n_chunks, chunk_index=c, batch_plate_ids=list(batch))
        fn = ctx.tmp("scores_%d.h5" % c)
        h.save_h5(fn)
        files.append(fn)
    want = sorted(i for i in ids if i not in obs_ids and i not in batch)
    ctx.prove(sorted(k for k, _ in log) == want, "plates scored across all chunk indices = unobserved plates not in the batch, each exactly once",
              key="coverage of candidate plates")
    order = _order(ctx, n_chunks)
    combined = sm.ChunkedScoresHolder.concat([sm.ChunkedScoresHolder.load_h5(files[c]) for c in order])
    ctx.prove(sorted(int(x) for x in combined.plate_ids.tolist()) == want, "combined holder has one entry per scored plate, ids intact",
              key="plate ids changed by save/load/combine")
    best = sm.select_next_plate(scores=combined, screen=screen, policy=None, batch_plate_ids=list(batch), rng=ctx.rng("R2"))
    ctx.prove(best is not None and ctx.is_true(best.plate_id == winner), "the plate with the minimum score is returned (ids past 255)",
              key="returned plate is not a minimum")
    return winner


def h_cli(ctx, cfg):
    """the two command-line steps with the shipped SizeScorer: selected_plate file holds the id or -1"""
    np = ctx.np
    core = ctx.mod("batchie.core")
    sc = ctx.mod("batchie.models.sparse_combo")
    dc = ctx.mod("batchie.distance_calculation")
    size = ctx.mod("batchie.scoring.size")
    screen, rows, pid, batch, obs_ids, rows_of = _setup(ctx, cfg)
    sfn = ctx.tmp("screen.h5")
    screen.save_h5(sfn)
    holder = core.ThetaHolder(n_thetas=2)
    for t in range(2):
        holder.add_theta(sc.SparseDrugComboMCMCSample(
            W=np.array([[0.1]] * screen.sample_space_size, dtype=float), W0=np.array([0.0] * screen.sample_space_size, dtype=float),
            V2=np.array([[0.2]] * screen.treatment_space_size, dtype=float), V1=np.array([[0.3]] * screen.treatment_space_size, dtype=float),
            V0=np.array([0.0] * screen.treatment_space_size, dtype=float), alpha=0.5 + t, precision=1.0))
    tfn = ctx.tmp("thetas.h5")
    holder.save_h5(tfn)
    dm = dc.ChunkedDistanceMatrix(2)
    dm.add_value(1, 0, 0.5)
    dfn = ctx.tmp("dist.h5")
    dm.save(dfn)
    n_chunks = int(ctx.int("n_chunks", 1, 2))
    files = []
    argv = cfg.get("argv", False)  # through the commands' own argument parsers (ids on the command line) or with them stubbed
    for c in range(n_chunks):
        out = ctx.tmp("sc_%d.h5" % c)
        if argv:
            cli_argv(ctx, "batchie.cli.calculate_scores", ["--data", sfn, "--thetas", tfn, "--distance-matrix", dfn, "--scorer", "SizeScorer",
                                                           "--n-chunks", n_chunks, "--chunk-index", c, "--output", out, "--seed", 3]
                     + (["--batch-plate-ids"] + list(batch) if batch else []))
        else:
            cli_main(ctx, "batchie.cli.calculate_scores", data=sfn, thetas=[tfn], distance_matrix=[dfn], scorer_cls=size.SizeScorer,
                     scorer_params={}, n_chunks=n_chunks, chunk_index=c, batch_plate_ids=list(batch), output=out, seed=0)
        files.append(out)
    sel = ctx.tmp("selected_plate")
    if argv:
        cli_argv(ctx, "batchie.cli.select_next_plate", ["--data", sfn, "--scores"] + files[::-1] + ["--output", sel]
                 + (["--batch-plate-id"] + list(batch) if batch else []))
    else:
        cli_main(ctx, "batchie.cli.select_next_plate", data=sfn, policy=None, policy_cls=None, policy_params={}, scores=files[::-1],
                 batch_plate_id=list(batch), output=sel, seed=0)
    got = int(ctx.read_text(sel).strip())
    cand = sorted(p for p in rows_of if p not in obs_ids and p not in batch)
    if not cand:
        ctx.prove(got == -1, "selected_plate holds -1 exactly when no plate is eligible")
        return got
    sid, tid = screen.sample_ids.tolist(), screen.treatment_ids.tolist()
    batch_rows = [i for b in batch for i in rows_of[b]]

    def size_of(p):
        union = set(rows_of[p]) | set(batch_rows)
        return len({(sid[i], tuple(tid[i])) for i in union}) if batch else len(rows_of[p])
    ctx.prove(got in cand, "selected plate is an unobserved plate outside the batch")
    ctx.prove(all(size_of(got) <= size_of(p) for p in cand) if got in cand else False,
              "selected plate has the minimum score (size of its conditioned experiment set) among the eligible plates")
    return got


def h_holder(ctx, cfg):
    sm = ctx.mod("batchie.scoring.main")
    h = sm.ChunkedScoresHolder(3)
    vals = [ctx.real("sc%d" % i) for i in range(3)]
    for i, v in enumerate(vals):
        h.add_score(10 + i, v)
    for i, v in enumerate(vals):
        ctx.prove(ctx.eq(h.get_score(10 + i), v), "get_score returns the stored score of the plate")
    e = sm.ChunkedScoresHolder(0)
    cat = sm.ChunkedScoresHolder.concat([e, h, sm.ChunkedScoresHolder(0)])
    ctx.prove(sorted(int(x) for x in cat.plate_ids.tolist()) == [10, 11, 12], "concat with empty holders keeps every score")
    mid = cat.plate_id_with_minimum_score([10, 12])
    ctx.prove(ctx.Or(ctx.And(mid == 10, vals[0] <= vals[2]), ctx.And(mid == 12, vals[2] <= vals[0])),
              "minimum restricted to the eligible ids")
    try:
        sm.ChunkedScoresHolder.concat([])
        ctx.fail("concat of nothing accepted")
    except ValueError:
        ctx.prove(True, "concat of an empty list is refused")
    return 1


def run(ctx, cfg):
    return {"coverage": h_coverage, "select": h_select, "cli": h_cli, "holder": h_holder, "many": h_many}[cfg["h"]](ctx, cfg)
