"""C20 - evaluation metrics and synergy values equal their definitions."""
import itertools

PROPERTY = "C20"
LEVEL = "model_checking"
FUNCTIONS = [
    "batchie.models.main.ModelEvaluation.__init__/mse/mse_variance/inter_chain_mse_variance/mean_predictions/save_h5/load_h5",
    "batchie.data.create_single_treatment_effect_map / create_single_treatment_effect_array",
    "batchie.synergy.calculate_synergy",
    "batchie.retrospective.calculate_mse",
    "batchie.models.main.generate_full_combinatoric_space / correlation_matrix / predict_viability_avg",
]
BOUNDS = {
    "quick": "metrics: 3 experiments x 4 posterior samples, chain labels in {0,1,2} (all labellings); single-agent effects: 3 rows, arity 2 and 3, ids sample in {0,1}, treatment in {-1,0,1} (all patterns); synergy: 3 rows arity 2; similarity matrix: 2-3 samples, 3 mapping rows; an evaluation file written twice under one name",
    "thorough": "metrics: 4 x 5, chain labels in {0,1,2}; effects/synergy: 4 rows; similarity: 3 samples, 4 mapping rows",
}
ASSUMPTIONS = [
    "floats are reals; np.var is the population variance mean((x-mean)^2)",
    "sqrt is an uninterpreted function with sqrt(x)^2 = x and sqrt(x) >= 0 for x >= 0",
    "similarity matrix: prediction rows are non-constant (otherwise 0/0)",
    "synergy: every row has at least one non-control treatment (the shape for which the function returns rectangular arrays)",
    "h5py is a faithful typed store",
]
OUTSIDE = ["catastrophic cancellation in np.var", "large treatment spaces (guard > 1e7 combinations)"]
RULE = "id patterns and chain labellings are solver-enumerated; predictions and observations are symbolic reals."
BUDGET_S = {"quick": 600, "thorough": 3000}
TASK_QUOTA = 150
NUMERIC_FIRST = 4
SOLVER_TIMEOUT_MS = 15000
PROVE_TIMEOUT_MS = 30000


def configs(tier, seed):
    q = tier == "quick"
    E_, S_ = (3, 4) if q else (4, 5)
    n = 3 if q else 4
    out = [dict(name="metrics", h="metrics", E=E_, S=S_, C=3),
           dict(name="metrics-io", h="metrics_io", E=2, S=2),
           dict(name="metrics on 5000 experiments", h="metrics_large", E=5000),
           dict(name="effects arity2", h="effects", n=n, arity=2),
           dict(name="effects arity3", h="effects", n=2 if q else 3, arity=3),
           dict(name="synergy lenient", h="synergy", n=n, strict=False),
           dict(name="synergy strict", h="synergy", n=n, strict=True),
           dict(name="calculate_mse", h="cmse", E=3, T=2),
           dict(name="similarity 2x3", h="corr", samples=2, M=3),
           dict(name="similarity 2x3, sample mapping of a larger space", h="corr", samples=2, M=3, inherited=True),
           dict(name="similarity 3x3", h="corr", samples=3, M=3 if q else 4)]
    return out


def fixtures(cfg):
    import random
    r = random.Random(5)
    v = {}
    for e in range(6):
        v["o%d" % e] = r.uniform(0, 1)
        v["ob%d" % e] = r.uniform(0.05, 1)
        v["s%d" % e] = r.randrange(2)
        for c in range(3):
            v["t%d_%d" % (e, c)] = r.randrange(-1, 2)
        for s in range(6):
            v["p%d_%d" % (e, s)] = r.uniform(0, 1)
    for s in range(6):
        v["c%d" % s] = [0, 0, 1, 2, 1, 0][s]
    for s in range(3):
        for k in range(8):
            v["q%d_%d" % (s, k)] = r.uniform(0.05, 0.95)
    v2 = dict(v)
    for e in range(6):
        v2["t%d_0" % e], v2["t%d_1" % e], v2["s%d" % e] = [(-1, 0), (0, -1), (0, 1), (1, 0), (-1, 1), (0, 1)][e] + (e % 2,)
    return [v, v2]


def _mean(xs):
    s = 0.0
    for x in xs:
        s = s + x
    return s / float(len(xs))


def _var(xs):
    m = _mean(xs)
    return _mean([(x - m) * (x - m) for x in xs])


def h_metrics(ctx, cfg):
    np = ctx.np
    mm = ctx.mod("batchie.models.main")
    E_, S_, C = cfg["E"], cfg["S"], cfg["C"]
    P = [[ctx.real("p%d_%d" % (e, s)) for s in range(S_)] for e in range(E_)]
    O = [ctx.real("o%d" % e) for e in range(E_)]
    chains = [int(ctx.int("c%d" % s, 0, C - 1)) for s in range(S_)]
    me = mm.ModelEvaluation(predictions=np.array(P, dtype=float), observations=np.array(O, dtype=float),
                            chain_ids=np.array(chains, dtype=int), sample_names=np.array(["x"] * E_, dtype=str))
    sq = [[(P[e][s] - O[e]) * (P[e][s] - O[e]) for s in range(S_)] for e in range(E_)]
    mse, mv, icv, mp = me.mse(), me.mse_variance(), me.inter_chain_mse_variance(), me.mean_predictions.tolist()
    ctx.observe("m", [mse, mv, icv, mp])
    ctx.prove(ctx.eq(mse, _mean([x for row in sq for x in row])), "overall MSE = mean squared error over all (experiment, posterior sample) pairs")
    ctx.prove(ctx.eq(mv, _var([_mean(row) for row in sq])), "MSE variance = variance across experiments of the per-experiment MSE")
    per_chain = []
    for c in sorted(set(chains)):
        per_chain.append(_mean([sq[e][s] for e in range(E_) for s in range(S_) if chains[s] == c]))
    ctx.prove(ctx.eq(icv, _var(per_chain)), "inter-chain variance = variance of the per-chain MSEs (unequal chain lengths, one chain)")
    for e in range(E_):
        ctx.prove(ctx.eq(mp[e], _mean(P[e])), "mean prediction = average over posterior samples")
    return chains


def h_metrics_large(ctx, cfg):
    """the metrics on an evaluation with thousands of experiments (sizes past any plausible internal block size): a handful of
    entries are symbolic, the rest concrete, so the definitions stay small identities"""
    np = ctx.np
    mm = ctx.mod("batchie.models.main")
    E_, S_ = cfg["E"], 2
    sym_rows = sorted({0, 1, E_ // 2, E_ - 2, E_ - 1})
    P = [[0.25 + 0.001 * (e % 7), 0.5 - 0.002 * (e % 5)] for e in range(E_)]
    O = [0.125 * (e % 3) for e in range(E_)]
    for k, e in enumerate(sym_rows):
        P[e] = [ctx.real("p%d_%d" % (k, s)) for s in range(S_)]
        O[e] = ctx.real("o%d" % k)
    me = mm.ModelEvaluation(predictions=np.array(P, dtype=float), observations=np.array(O, dtype=float),
                            chain_ids=np.array([0, 1], dtype=int), sample_names=np.array(["x"] * E_, dtype=str))
    sq = [[(P[e][s] - O[e]) * (P[e][s] - O[e]) for s in range(S_)] for e in range(E_)]
    total = 0.0
    for row in sq:
        for x in row:
            total = total + x
    ctx.prove(ctx.eq(me.mse() * (E_ * S_), total), "overall MSE = mean squared error over all (experiment, posterior sample) pairs (%d experiments)" % E_,
              key="overall MSE wrong on a large evaluation")
    mp = me.mean_predictions.tolist()
    ctx.prove(all(ctx.is_true(ctx.eq(mp[e] * S_, P[e][0] + P[e][1])) for e in sym_rows), "mean prediction = average over posterior samples (large evaluation)")
    per_chain = [sum_(ctx, [sq[e][c] for e in range(E_)]) for c in range(S_)]
    icv = me.inter_chain_mse_variance()
    m0, m1 = per_chain[0] / E_, per_chain[1] / E_
    ctx.prove(ctx.eq(icv * 4, (m0 - m1) * (m0 - m1)), "inter-chain variance = variance of the per-chain MSEs (large evaluation)",
              key="inter-chain variance wrong on a large evaluation")
    return E_


def sum_(ctx, xs):
    t = 0.0
    for x in xs:
        t = t + x
    return t


def h_metrics_io(ctx, cfg):
    np = ctx.np
    mm = ctx.mod("batchie.models.main")
    E_, S_ = cfg["E"], cfg["S"]
    P = [[ctx.real("p%d_%d" % (e, s)) for s in range(S_)] for e in range(E_)]
    O = [ctx.real("o%d" % e) for e in range(E_)]
    names = ["n%d" % e for e in range(E_)]
    me = mm.ModelEvaluation(predictions=np.array(P, dtype=float), observations=np.array(O, dtype=float),
                            chain_ids=np.array([0, 1][:S_], dtype=int), sample_names=np.array(names, dtype=str))
    fn = ctx.tmp("me.h5")
    me.save_h5(fn)
    back = mm.ModelEvaluation.load_h5(fn)
    ok = True
    for a, b in zip([x for r in back.predictions.tolist() for x in r] + back.observations.tolist(),
                    [x for r in P for x in r] + O):
        ok = ctx.And(ok, ctx.eq(a, b))
    ctx.prove(ok, "evaluation file reloads with the same predictions and observations")
    ctx.prove(back.chain_ids.tolist() == [0, 1][:S_] and back.sample_names.tolist() == names, "evaluation file reloads with the same chain ids and sample names")
    ctx.prove(ctx.eq(back.mse(), me.mse()), "reloaded evaluation reports the same MSE")
    # a file that is written again (the same screen evaluated after another training round) reloads as what was written last
    P2 = [[ctx.real("q%d_%d" % (e, s)) for s in range(S_)] for e in range(E_)]
    O2 = [ctx.real("r%d" % e) for e in range(E_)]
    names2 = ["m%d" % e for e in range(E_)]
    me2 = mm.ModelEvaluation(predictions=np.array(P2, dtype=float), observations=np.array(O2, dtype=float),
                             chain_ids=np.array([1, 0][:S_], dtype=int), sample_names=np.array(names2, dtype=str))
    me2.save_h5(fn)
    back2 = mm.ModelEvaluation.load_h5(fn)
    ok = True
    for a, b in zip([x for r in back2.predictions.tolist() for x in r] + back2.observations.tolist(), [x for r in P2 for x in r] + O2):
        ok = ctx.And(ok, ctx.eq(a, b))
    ctx.prove(ctx.And(ok, back2.chain_ids.tolist() == [1, 0][:S_], back2.sample_names.tolist() == names2),
              "an evaluation file that is written again reloads as the evaluation written last", key="evaluation file keeps an earlier evaluation")
    for bad in ("pred_int", "obs_int", "chain_float", "shape"):
        kw = dict(predictions=np.array(P, dtype=float), observations=np.array(O, dtype=float),
                  chain_ids=np.array([0, 1][:S_], dtype=int), sample_names=np.array(names, dtype=str))
        if bad == "pred_int":
            kw["predictions"] = np.array([[1] * S_] * E_, dtype=int)
        elif bad == "obs_int":
            kw["observations"] = np.array([1] * E_, dtype=int)
        elif bad == "chain_float":
            kw["chain_ids"] = np.array([0.0, 1.0][:S_], dtype=float)
        else:
            kw["chain_ids"] = np.array([0] * (S_ + 1), dtype=int)
        try:
            mm.ModelEvaluation(**kw)
            ctx.fail("ModelEvaluation accepted malformed input (%s)" % bad)
        except ValueError:
            ctx.prove(True, "ModelEvaluation rejects malformed input")
    return 1


def _ids(ctx, n, arity):
    s = [int(ctx.int("s%d" % i, 0, 1)) for i in range(n)]
    t = [[int(ctx.int("t%d_%d" % (i, c), -1, 1)) for c in range(arity)] for i in range(n)]
    return s, t


def _ref_effects(ctx, s, t, obs, arity):
    """definition: mean of that sample's single-agent observations of the treatment; 1 for control"""
    ref = {}
    for sid in sorted(set(s)):
        for tid in sorted(set(x for row in t for x in row)):
            if tid == -1:
                ref[(sid, -1)] = 1.0
                continue
            rows = [i for i in range(len(s)) if s[i] == sid and sum(1 for x in t[i] if x == -1) == arity - 1
                    and [x for x in t[i] if x != -1] == [tid]]
            if rows:
                ref[(sid, tid)] = _mean([obs[i] for i in rows])
    return ref


def h_effects(ctx, cfg):
    np = ctx.np
    data = ctx.mod("batchie.data")
    n, arity = cfg["n"], cfg["arity"]
    s, t = _ids(ctx, n, arity)
    obs = [ctx.real("ob%d" % i) for i in range(n)]
    S, T, O = np.array(s, dtype=int), np.array(t, dtype=int).reshape(n, arity), np.array(obs, dtype=float)
    m = data.create_single_treatment_effect_map(sample_ids=S, treatment_ids=T, observation=O)
    ref = _ref_effects(ctx, s, t, obs, arity)
    got = {(int(k[0]), int(k[1])): v for k, v in m.items()}
    ctx.observe("keys", sorted(got))
    ctx.prove(sorted(got) == sorted(ref), "effect map has an entry exactly for control and for measured (sample, treatment) pairs")
    for k in ref:
        if k in got:
            ctx.prove(ctx.eq(got[k], ref[k]), "single-agent effect = mean of that sample's single-agent observations (1 for control)")
    complete = all((s[i], x) in ref for i in range(n) for x in t[i])
    try:
        arr = data.create_single_treatment_effect_array(sample_ids=S, treatment_ids=T, observation=O).tolist()
        ctx.prove(complete, "effect array returned only when every (sample, treatment) has an effect")
        for i in range(n):
            for c in range(arity):
                if (s[i], t[i][c]) in ref:
                    ctx.prove(ctx.eq(arr[i][c], ref[(s[i], t[i][c])]), "effect array entry = effect of the row's sample and treatment")
    except KeyError:
        ctx.prove(not complete, "effect array raises KeyError only when an effect is missing")
    return len(ref)


def h_synergy(ctx, cfg):
    np = ctx.np
    syn = ctx.mod("batchie.synergy")
    n, strict = cfg["n"], cfg["strict"]
    s, t = _ids(ctx, n, 2)
    for i in range(n):
        if t[i][0] == -1 and t[i][1] == -1:
            ctx.assume(False)
    obs = [ctx.real("ob%d" % i) for i in range(n)]
    S, T, O = np.array(s, dtype=int), np.array(t, dtype=int).reshape(n, 2), np.array(obs, dtype=float)
    ref = _ref_effects(ctx, s, t, obs, 2)
    combos = [i for i in range(n) if t[i][0] != -1 and t[i][1] != -1]
    have = [i for i in combos if (s[i], t[i][0]) in ref and (s[i], t[i][1]) in ref]
    try:
        rs, rt, ry = syn.calculate_synergy(sample_ids=S, treatment_ids=T, observation=O, strict=strict)
    except ValueError:
        ctx.prove(strict and len(have) != len(combos), "strict mode refuses exactly when a combination lacks a single-agent measurement")
        return -1
    ctx.prove((not strict) or len(have) == len(combos), "strict mode refuses combinations lacking a single-agent measurement")
    rs, rt, ry = rs.tolist(), rt.tolist(), ry.tolist()
    ctx.observe("syn", [rs, rt])
    ctx.prove(len(ry) == len(have) and len(rs) == len(have) and len(rt) == len(have),
              "one synergy value per combination that has both single-agent measurements (others skipped)")
    for k, i in enumerate(have):
        if k < len(ry):
            ctx.prove(rs[k] == s[i] and list(rt[k]) == t[i], "synergy rows keep sample and treatment ids, in input order")
            ctx.prove(ctx.eq(ry[k], ref[(s[i], t[i][0])] * ref[(s[i], t[i][1])] - obs[i]),
                      "Bliss synergy = product of single-agent effects minus the observation")
    return len(have)


class _Duck:
    def __init__(self, np, E_, obs):
        self.size = E_
        self.observations = np.array(obs, dtype=float)


class _Theta:
    def __init__(self, np, pred):
        self.np, self.pred = np, pred

    def predict_viability(self, screen):
        return self.np.array(self.pred, dtype=float)


def h_cmse(ctx, cfg):
    np = ctx.np
    retro = ctx.mod("batchie.retrospective")
    core = ctx.mod("batchie.core")
    E_, T = cfg["E"], cfg["T"]
    P = [[ctx.real("p%d_%d" % (e, s)) for e in range(E_)] for s in range(T)]
    O = [ctx.real("o%d" % e) for e in range(E_)]
    holder = core.ThetaHolder(n_thetas=T)
    for s in range(T):
        holder.add_theta(_Theta(np, P[s]))
    got = retro.calculate_mse(_Duck(np, E_, O), holder)
    ref = _mean([(_mean([P[s][e] for s in range(T)]) - O[e]) * (_mean([P[s][e] for s in range(T)]) - O[e]) for e in range(E_)])
    ctx.observe("mse", got)
    ctx.prove(ctx.eq(got, ref), "calculate_mse = mean squared difference between averaged predictions and observations")
    return 1


class _RecTheta:
    """records what it is asked to predict; prediction = symbolic table entry per (sample id, combination)"""

    def __init__(self, np, table, log):
        self.np, self.table, self.log = np, table, log

    def predict_viability(self, screen):
        sid = screen.sample_ids.tolist()
        tid = [tuple(r) for r in screen.treatment_ids.tolist()]
        self.log.append((sid, tid))
        return self.np.array([self.table[sid[k]][k] for k in range(len(sid))], dtype=float)


def h_corr(ctx, cfg):
    np = ctx.np
    data = ctx.mod("batchie.data")
    mm = ctx.mod("batchie.models.main")
    core = ctx.mod("batchie.core")
    nS, M = cfg["samples"], cfg["M"]
    # a named control at a positive dose: the screen's own ids (control = -1) differ from a fresh re-encoding
    names = ["a", "ctl", "b", "c"][:M]
    doses = [1.0, 1.0, 2.0, 1.0][:M]
    snames = ["s0", "s1", "s2"][:nS]
    rows = list(itertools.combinations(range(M), 2))[:max(nS, 2)]
    while len(rows) < nS:
        rows.append(rows[0])
    kw = {}
    if cfg.get("inherited"):
        # the screen is part of a larger space: its sample mapping also lists a sample without rows ("s0x", id 1)
        kw["sample_mapping"] = (np.array(sorted(snames + ["s0x"]), dtype=str), np.array(list(range(nS + 1)), dtype=int))
    screen = data.Screen(
        treatment_names=np.array([[names[a], names[b]] for a, b in rows], dtype=str),
        treatment_doses=np.array([[doses[a], doses[b]] for a, b in rows], dtype=float),
        sample_names=np.array([snames[i % nS] for i in range(len(rows))], dtype=str),
        plate_names=np.array(["p"] * len(rows), dtype=str),
        control_treatment_name="ctl", **kw)
    mi = screen.treatment_mapping[2].tolist()
    K = len(mi) * (len(mi) - 1) // 2
    present = sorted(set(int(x) for x in screen.sample_ids.tolist()))
    all_ids = sorted(int(x) for x in screen.sample_mapping[1].tolist())
    # (a sample without rows still gets a table, so that asking for it is answered - and noticed - rather than a KeyError)
    table = {sid: [ctx.real("q%d_%d" % (i, k)) for k in range(K)] for i, sid in enumerate(present)}
    for sid in all_ids:
        table.setdefault(sid, [0.5 + 0.01 * k for k in range(K)])
    log = []
    holder = core.ThetaHolder(n_thetas=1)
    holder.add_theta(_RecTheta(np, table, log))
    # non-constant prediction rows (otherwise 0/0)
    mu = [_mean([table[sid][k] for sid in present]) for k in range(K)]
    X = [[table[sid][k] - mu[k] for k in range(K)] for sid in present]
    for s in range(nS):
        ss = 0.0
        for k in range(K):
            ss = ss + X[s][k] * X[s][k]
        ctx.assume(ss > 0)
    df = mm.correlation_matrix(screen, holder)
    corr = df.values.tolist()
    ctx.observe("corr", corr)
    ctx.prove(len(corr) == nS and all(len(r) == nS for r in corr), "one row and one column per sample that has experiments in the screen",
              key="similarity matrix has rows for samples without experiments")
    if len(corr) != nS:
        return len(corr)
    sids = sorted(set(screen.sample_ids.tolist()))
    ctx.prove(len(log) == len(sids), "one prediction request per sample")
    want = sorted(tuple(c) for c in itertools.combinations(mi, 2))
    for k, (sid, tid) in enumerate(log):
        ctx.prove(all(x == sids[k] for x in sid), "combinatoric space uses the screen's own sample id")
        ctx.prove(sorted(tid) == want, "similarity is computed over every unordered combination of the experiment space, with the screen's own treatment ids")
    ss = []
    for i in range(nS):
        v = 0.0
        for k in range(K):
            v = v + X[i][k] * X[i][k]
        ss.append(v)
    r = [np.sqrt(v) for v in ss]
    for i in range(nS):
        for j in range(nS):
            ctx.prove(ctx.eq(corr[i][j], corr[j][i]), "similarity matrix is symmetric")
            ref = 0.0
            for k in range(K):
                ref = ref + (X[i][k] / r[i]) * (X[j][k] / r[j])
            ctx.prove(ctx.eq(corr[i][j], ref),
                      "similarity entry = Pearson correlation of the two samples' average predictions over all combinations")
        ctx.prove(ctx.eq(corr[i][i], 1.0), "similarity matrix has unit diagonal", hard=True)
    return nS


def run(ctx, cfg):
    return {"metrics": h_metrics, "metrics_large": h_metrics_large, "metrics_io": h_metrics_io, "effects": h_effects, "synergy": h_synergy,
            "cmse": h_cmse, "corr": h_corr}[cfg["h"]](ctx, cfg)
