"""C10 - posterior-sample collections persist exactly and keep chain-major order."""
from .common import cli_main, cli_argv, all_same, all_eq, concrete_screen, flat

PROPERTY = "C10"
LEVEL = "model_checking"
FUNCTIONS = [
    "batchie.core.ThetaHolder.__init__/add_theta/get_theta/combine/concat/save_h5/load_h5/is_complete",
    "batchie.models.sparse_combo.SparseDrugComboMCMCSample.private_parameters_dict / from_dicts",
    "batchie.models.sparse_combo_interaction.SparseDrugComboInteractionMCMCSample.private_parameters_dict / shared_parameters_dict / from_dicts",
    "batchie.cli.evaluate_model.main (through get_parser / get_args with sys.argv set; class lookup by name answered from the loaded modules)",
    "batchie.models.main.predict_viability_all / ModelEvaluation.save_h5 / load_h5",
]
BOUNDS = {
    "quick": "holders of 1, 2, 3, 10, 11, 12, 101 and 257 samples ('10' < '2' and '100' < '11' matter), every parameter a symbolic float64 of tiny shape (float32 casts visible); both sample types, empty and non-empty single-effect table; three parameters of one sample ranging over every float class (finite, NaN, +inf, -inf, -0.0); 2 chains of lengths (3,2), (1,11), (11,1), (2,11), (1,1) and 3 chains (2,1,2), (11,2,1) in every file order; a refused (empty) save onto an existing file; dtype of every reloaded parameter array; a fixture whose values all survive a float32 round trip",
    "thorough": "holders of every size 1..25 and of 101, 112, 256, 257, 300 and 1001 samples (three-digit keys: '100' < '11'), larger parameter shapes (3 samples x 3 treatments x 2 dimensions); every pair of chain lengths from {1,2,3,10,11,12}, every triple from {1,2,11}, 4, 5 and 6 chains; every file order",
}
ASSUMPTIONS = [
    "HDF5 is a faithful typed store whose groups iterate their keys in ASCII order ('0','1','10','11','2',...); attrs return what was stored",
    "a cast to float32 changes the value (uninterpreted F32), so any narrowing on the way to or from disk is visible",
    "expit is an uninterpreted function",
]
OUTSIDE = ["libhdf5 itself", "parameter arrays larger than the tiny shapes used (the code is shape-agnostic)"]
RULE = "holder sizes and chain-file orders are enumerated; every stored parameter value is symbolic."
BUDGET_S = {"quick": 600, "thorough": 3000}


def configs(tier, seed):
    q = tier == "quick"
    out = []
    for n in ((1, 2, 3, 10, 11, 12, 101, 257) if q else list(range(1, 26)) + [101, 112, 256, 257, 300, 1001]):
        out.append(dict(name="roundtrip combo n=%d" % n, h="roundtrip", kind="combo", n=n))
    if not q:
        for n in (3, 11):
            out.append(dict(name="roundtrip combo n=%d larger shapes" % n, h="roundtrip", kind="combo", n=n, shape=(3, 3, 2)))
            out.append(dict(name="roundtrip interaction table n=%d larger shapes" % n, h="roundtrip", kind="inter", n=n, shape=(3, 3, 2)))
    out.append(dict(name="roundtrip combo n=%d parameters of every float class" % (1 if q else 2), h="roundtrip", kind="combo", n=1 if q else 2, special=True))
    out.append(dict(name="roundtrip interaction empty table", h="roundtrip", kind="inter_empty", n=2))
    out.append(dict(name="roundtrip interaction table", h="roundtrip", kind="inter", n=11 if q else 12))
    if q:
        lens_list = [(3, 2), (1, 11), (2, 1, 2), (11, 1), (2, 11), (1, 1), (11, 2, 1)]
    else:
        import itertools
        lens_list = [(3, 2), (1, 11), (2, 1, 2), (12, 1, 3), (2, 2, 2)]
        lens_list += [t for t in itertools.product((1, 2, 3, 10, 11, 12), repeat=2) if t not in lens_list]
        lens_list += [t for t in itertools.product((1, 2, 11), repeat=3) if t not in lens_list]
        lens_list += [(2, 1, 3, 1), (11, 2, 1, 12), (1, 1, 1, 1, 2), (1, 2, 1, 1, 3, 1)]
    for i, lens in enumerate(lens_list):
        out.append(dict(name="concat %s" % (lens,), h="concat", lens=list(lens)))
        if q or len(lens) < 6:
            out.append(dict(name="evaluate_model %s" % (lens,), h="evaluate", lens=list(lens)))
    out.append(dict(name="guards", h="guards"))
    return out


def fixtures(cfg):
    v = {}
    for i in range(40 if cfg.get("n", 0) <= 40 else cfg["n"] + 2):
        for k in range(24):
            v["th%d_%d" % (i, k)] = 0.1 * (i + 1) + 0.01 * k
        v["th%d_prec" % i] = 1.0 + i
    for i in range(5):
        v["order%d" % i] = [1, 0, 0, 0, 0][i]
    for k in range(6):
        v["se%d" % k] = 0.3 + 0.1 * k
    if cfg.get("h") == "roundtrip" and cfg.get("n", 0) <= 3:
        # a second fixture whose values all survive a float32 round trip (dyadic fractions, small integers, zero)
        w = dict(v)
        for i in range(4):
            for k in range(24):
                w["th%d_%d" % (i, k)] = ((i * 7 + k * 13) % 64 - 20) / 16.0
            w["th%d_prec" % i] = 2.0 + i
        return [v, w]
    return [v]


def _combo(ctx, sc, np, tag, nS=2, nT=2, D=1, special=False):
    k = [0]

    def r():
        # special: the first two parameters (W[0][0], W[1][0]) and alpha range over every float class (NaN, +-inf, -0.0 too)
        x = (ctx.float_bits if special and (k[0] < 2 or k[0] == nS * D + nS + 2 * nT * D + nT) else ctx.real_bits)("th%s_%d" % (tag, k[0]))
        k[0] += 1
        return x
    vals = dict(W=[[r() for _ in range(D)] for _ in range(nS)], W0=[r() for _ in range(nS)],
                V2=[[r() for _ in range(D)] for _ in range(nT)], V1=[[r() for _ in range(D)] for _ in range(nT)],
                V0=[r() for _ in range(nT)], alpha=r())
    prec = ctx.real("th%s_prec" % tag, positive=True)
    th = sc.SparseDrugComboMCMCSample(W=np.array(vals["W"], dtype=float), W0=np.array(vals["W0"], dtype=float),
                                      V2=np.array(vals["V2"], dtype=float), V1=np.array(vals["V1"], dtype=float),
                                      V0=np.array(vals["V0"], dtype=float), alpha=vals["alpha"], precision=prec)
    vals["precision"] = prec
    return th, vals


def _inter(ctx, sci, np, tag, lookup, nS=2, nT=2, D=1):
    k = [0]

    def r():
        x = ctx.real_bits("th%s_%d" % (tag, k[0]))
        k[0] += 1
        return x
    vals = dict(W=[[r() for _ in range(D)] for _ in range(nS)], V2=[[r() for _ in range(D)] for _ in range(nT)])
    prec = ctx.real("th%s_prec" % tag, positive=True)
    th = sci.SparseDrugComboInteractionMCMCSample(W=np.array(vals["W"], dtype=float), V2=np.array(vals["V2"], dtype=float),
                                                  precision=prec, single_effect_lookup=lookup)
    vals["precision"] = prec
    return th, vals


def _params_of(theta):
    d = dict(theta.private_parameters_dict())
    out = {}
    for k, v in d.items():
        if k == "single_effect_lookup":
            continue
        out[k] = v.tolist() if hasattr(v, "tolist") else v
    return out


def _flatten(d):
    out = []
    for k in sorted(d):
        v = d[k]
        stack = [v]
        while stack:
            x = stack.pop()
            if isinstance(x, list):
                stack.extend(reversed(x))
            else:
                out.append(x)
    return out


def _dtypes(theta):
    return {k: str(v.dtype) for k, v in theta.private_parameters_dict().items() if hasattr(v, "dtype")}


def _same_theta(ctx, theta, vals, label):
    got = _params_of(theta)
    ctx.prove(sorted(got) == sorted(vals), label + ": same parameter names")
    for k in vals:
        if k in got:
            ctx.prove(all_same(ctx, got[k], vals[k]), label + ": parameter %s bit-identical" % k,
                      key="parameter %s not preserved" % k)


def h_roundtrip(ctx, cfg):
    np = ctx.np
    core = ctx.mod("batchie.core")
    sc = ctx.mod("batchie.models.sparse_combo")
    sci = ctx.mod("batchie.models.sparse_combo_interaction")
    ctx.f32_visible(True)
    n, kind = cfg["n"], cfg["kind"]
    holder = core.ThetaHolder(n_thetas=n)
    truth = []
    lookup = {}
    if kind == "inter":
        lookup = {(0, -1): 1.0, (0, 0): ctx.real_bits("se0"), (1, 1): ctx.real_bits("se1"), (1, -1): 1.0}
    for i in range(n):
        if kind == "combo":
            th, vals = _combo(ctx, sc, np, str(i), *cfg.get("shape", (2, 2, 1)), special=cfg.get("special", False))
        else:
            th, vals = _inter(ctx, sci, np, str(i), lookup, *cfg.get("shape", (2, 2, 1)))
        holder.add_theta(th)
        truth.append(vals)
    ctx.prove(holder.is_complete, "holder with n of n samples is complete")
    fn = ctx.tmp("thetas.h5")
    holder.save_h5(fn)
    back = core.ThetaHolder.load_h5(fn)
    ctx.prove(len(back.thetas) == n and back.n_thetas == n and back.is_complete, "same number of samples after reload")
    for i in range(min(n, len(back.thetas))):
        _same_theta(ctx, back.get_theta(i), truth[i], "sample %d after reload (order preserved)" % i)
        ctx.prove(type(back.get_theta(i)).__name__ == type(holder.get_theta(i)).__name__, "sample type restored")
        saved_dt, back_dt = _dtypes(holder.get_theta(i)), _dtypes(back.get_theta(i))
        ctx.prove(all(back_dt.get(k) == dt for k, dt in saved_dt.items()), "every parameter array comes back with the dtype it was saved with",
                  key="parameter dtype changed by save / load")
    if kind != "combo":
        lk = back.get_theta(0).single_effect_lookup
        got = {(int(a), int(b)): v for (a, b), v in lk.items()}
        ctx.prove(sorted(got) == sorted(lookup), "single-effect table: same keys after reload")
        for k2 in lookup:
            if k2 in got:
                ctx.prove(ctx.same(got[k2], lookup[k2]), "single-effect table: values bit-identical")
    # second cycle is a fixed point
    fn2 = ctx.tmp("thetas2.h5")
    back.save_h5(fn2)
    again = core.ThetaHolder.load_h5(fn2)
    ctx.prove(len(again.thetas) == n, "second cycle: same number of samples")
    for i in range(min(n, len(again.thetas))):
        _same_theta(ctx, again.get_theta(i), truth[i], "sample %d after second reload" % i)
    return n


def _chains(ctx, core, sc, np, lens):
    holders, truth = [], []
    tag = 0
    for c, ln in enumerate(lens):
        h = core.ThetaHolder(n_thetas=ln)
        for _ in range(ln):
            th, vals = _combo(ctx, sc, np, str(tag))
            h.add_theta(th)
            truth.append((c, vals, th))
            tag += 1
        holders.append(h)
    return holders, truth


def _order(ctx, k):
    """an arbitrary order of k chain files (solver-enumerated permutation)"""
    rest = list(range(k))
    out = []
    for i in range(k - 1):
        j = int(ctx.int("order%d" % i, 0, len(rest) - 1))
        out.append(rest.pop(j))
    out.append(rest[0])
    return out


def h_concat(ctx, cfg):
    np = ctx.np
    core = ctx.mod("batchie.core")
    sc = ctx.mod("batchie.models.sparse_combo")
    ctx.f32_visible(True)
    lens = cfg["lens"]
    holders, truth = _chains(ctx, core, sc, np, lens)
    files = []
    for c, h in enumerate(holders):
        fn = ctx.tmp("chain_%d.h5" % c)
        h.save_h5(fn)
        files.append(fn)
    order = _order(ctx, len(lens))
    loaded = [core.ThetaHolder.load_h5(files[c]) for c in order]
    cat = core.ThetaHolder.concat(loaded)
    want = [t for c in order for t in truth if t[0] == c]
    ctx.prove(cat.n_thetas == sum(lens) and len(cat.thetas) == sum(lens) and cat.is_complete, "concatenation holds all samples of all chains")
    for j, (c, vals, _) in enumerate(want):
        if j < len(cat.thetas):
            _same_theta(ctx, cat.get_theta(j), vals, "concat position %d is chain-major (all of the first file in step order, then the next)" % j)
    # the per-chain collections are not modified by being concatenated, so concatenating them again gives the same
    for pos, c in enumerate(order):
        ctx.prove(len(loaded[pos].thetas) == lens[c] and loaded[pos].n_thetas == lens[c] and loaded[pos].is_complete,
                  "a per-chain collection still has exactly its own samples after being concatenated", key="concat modified its operand")
        try:
            loaded[pos].get_theta(lens[c])
            ctx.fail("out-of-range access accepted on a per-chain collection after concat", key="concat modified its operand")
        except ValueError:
            ctx.prove(True, "out-of-range access is still refused after concat")
    again = core.ThetaHolder.concat(loaded)
    ctx.prove(len(again.thetas) == sum(lens) and again.n_thetas == sum(lens), "concatenating the same collections again gives the same number of samples",
              key="second concat differs")
    for j, (c, vals, _) in enumerate(want):
        if j < len(again.thetas):
            _same_theta(ctx, again.get_theta(j), vals, "second concat, position %d" % j)
    return order


def h_evaluate(ctx, cfg):
    np = ctx.np
    core = ctx.mod("batchie.core")
    sc = ctx.mod("batchie.models.sparse_combo")
    mm = ctx.mod("batchie.models.main")
    lens = cfg["lens"]
    holders, truth = _chains(ctx, core, sc, np, lens)
    files = []
    for c, h in enumerate(holders):
        fn = ctx.tmp("chain_%d.h5" % c)
        h.save_h5(fn)
        files.append(fn)
    rows = [("s0", "a", 1.0, "b", 1.0, "p"), ("s1", "b", 1.0, "", 0.0, "p")]
    screen = concrete_screen(ctx, rows, observations=[0.5, 0.25])
    sfn = ctx.tmp("screen.h5")
    screen.save_h5(sfn)
    order = _order(ctx, len(lens))
    out = ctx.tmp("me.h5")
    cli_argv(ctx, "batchie.cli.evaluate_model", ["--screen", sfn, "--thetas"] + [files[c] for c in order] + ["--output", out])
    me = mm.ModelEvaluation.load_h5(out)
    preds = me.predictions.tolist()
    chain_ids = me.chain_ids.tolist()
    want = [(pos, t) for pos, c in enumerate(order) for t in truth if t[0] == c]
    ctx.prove(len(chain_ids) == sum(lens) and len(preds) == len(rows) and all(len(r) == sum(lens) for r in preds),
              "one prediction column and one chain id per posterior sample")
    for j, (pos, (c, vals, th)) in enumerate(want):
        if j < len(chain_ids):
            ctx.prove(chain_ids[j] == pos, "chain id of column j is the index of the file the sample came from", key="chain ids misaligned with prediction columns")
            col = th.predict_viability(screen).tolist()
            ctx.prove(all_eq(ctx, [preds[e][j] for e in range(len(rows))], col),
                      "prediction column j is the prediction of the j-th sample in chain-major order", key="prediction columns not chain-major")
    return order


def h_guards(ctx, cfg):
    np = ctx.np
    core = ctx.mod("batchie.core")
    sc = ctx.mod("batchie.models.sparse_combo")
    h = core.ThetaHolder(n_thetas=2)
    try:
        h.save_h5(ctx.tmp("empty.h5"))
        ctx.fail("empty holder was saved")
    except ValueError:
        ctx.prove(True, "empty holder refuses to be saved")
    a, _ = _combo(ctx, sc, np, "0")
    b, _ = _combo(ctx, sc, np, "1")
    c, _ = _combo(ctx, sc, np, "2")
    h.add_theta(a)
    ctx.prove(not h.is_complete, "holder below its declared size is not complete")
    h.add_theta(b)
    try:
        h.add_theta(c)
        ctx.fail("holder grew beyond its declared size")
    except ValueError:
        ctx.prove(len(h.thetas) == 2, "holder refuses to grow beyond its declared size")
    for bad in (-1, 2, 5):
        try:
            h.get_theta(bad)
            ctx.fail("out-of-range access accepted")
        except ValueError:
            ctx.prove(True, "out-of-range access is refused")
    ctx.prove(h.get_theta(0) is a and h.get_theta(1) is b, "get_theta returns samples in insertion order")
    # the same refusals on a partly filled collection, on a reloaded one and on a concatenation
    part = core.ThetaHolder(n_thetas=3)
    part.add_theta(a)
    for bad in (1, 2, 3, -1):
        try:
            part.get_theta(bad)
            ctx.fail("access to a sample that was never stored accepted (partly filled collection)", key="out-of-range access accepted")
        except ValueError:
            ctx.prove(True, "out-of-range access is refused")
    fn = ctx.tmp("guards.h5")
    h.save_h5(fn)
    back = core.ThetaHolder.load_h5(fn)
    both = core.ThetaHolder.concat([h, back])
    for what, x, n in (("reloaded collection", back, 2), ("concatenation", both, 4)):
        try:
            x.add_theta(c)
            ctx.fail("%s grew beyond its declared size" % what, key="collection grew beyond its declared size")
        except ValueError:
            ctx.prove(len(x.thetas) == n, "holder refuses to grow beyond its declared size")
        for bad in (-1, n):
            try:
                x.get_theta(bad)
                ctx.fail("out-of-range access accepted (%s)" % what, key="out-of-range access accepted")
            except ValueError:
                ctx.prove(True, "out-of-range access is refused")
    # a refused save is a refusal: the file that is already there (an earlier chain) stays as it was
    empty = core.ThetaHolder(n_thetas=2)
    try:
        empty.save_h5(fn)
        ctx.fail("empty holder was saved")
    except ValueError:
        ctx.prove(True, "empty holder refuses to be saved")
    try:
        again = core.ThetaHolder.load_h5(fn)
        kept = len(again.thetas) == 2 and all(ctx.is_true(all_same(ctx, _flatten(_params_of(x)), _flatten(_params_of(y)))) for x, y in zip(again.thetas, back.thetas))
    except (KeyError, OSError, ValueError):
        kept = False
    ctx.prove(kept, "a refused (empty) save leaves the collection already stored under that name loadable and unchanged",
              key="refused save destroyed the stored collection")
    try:
        core.ThetaHolder.concat([])
        ctx.fail("concat of nothing accepted")
    except ValueError:
        ctx.prove(True, "concat of an empty list is refused")
    return 1


def run(ctx, cfg):
    return {"roundtrip": h_roundtrip, "concat": h_concat, "evaluate": h_evaluate, "guards": h_guards}[cfg["h"]](ctx, cfg)
