"""C17 - sampling follows the burn-in/thinning schedule; each chain gets its own stream."""
PROPERTY = "C17"
LEVEL = "model_checking"
FUNCTIONS = ["batchie.sampling.sample (MCMC and VI branches)", "batchie.core.ThetaHolder.add_theta / is_complete"]
BOUNDS = {
    "quick": "full runs: every b<=6, t in 1..6, n in 1..6 (solver-enumerated); one-iteration lemma: arbitrary b>=0, t>=1, n>=1 and iteration index (unbounded integers); generator selection: arbitrary seed, n_chains, chain_index (unbounded); variational request: arbitrary n>=1 (unbounded); generator selection with the package's loggers at their default level and at DEBUG; the model stand-in holds 0, 1 or 2 observations (solver-chosen)",
    "thorough": "full runs: b<=16, t<=16, n<=16; lemmas unbounded",
}
ASSUMPTIONS = [
    "numpy SeedSequence(seed).spawn(n)[i] is modelled as an injective constructor child(seed, i); default_rng(x) as a generator determined by x",
    "that spawned children are statistically independent, non-overlapping streams is numpy's contract and is not decided here: the check establishes that the right child is selected",
    "one-iteration lemma: tqdm.trange(k) iterates 0..k-1 (replaced by an iterator that yields one arbitrary index of that range)",
]
OUTSIDE = ["statistical independence / non-overlap of numpy's spawned streams", "progress-bar output"]
RULE = "schedule parameters are solver-enumerated for the full runs and stay symbolic (unbounded) in the lemmas."
BUDGET_S = {"quick": 600, "thorough": 3000}


def configs(tier, seed):
    m = 6 if tier == "quick" else 16
    return [dict(name="schedule", h="schedule", bmax=m, tmax=m, nmax=m),
            dict(name="iteration-lemma", h="lemma"),
            dict(name="stream", h="stream"),
            dict(name="vi", h="vi", nmax=m),
            dict(name="vi request, unbounded n", h="vi_any"),
            dict(name="arguments", h="args")]


def fixtures(cfg):
    if cfg["h"] == "schedule":
        return [dict(b=10, t=2, n=10, nobs=0), dict(b=0, t=1, n=1, nobs=1), dict(b=3, t=3, n=2, nobs=2)]
    if cfg["h"] == "stream":
        return [dict(seed=0, n_chains=2, chain_index=1, verbose=False), dict(seed=12345, n_chains=5, chain_index=0, verbose=True)]
    if cfg["h"] == "vi":
        return [dict(n=3, seed=4)]
    if cfg["h"] == "vi_any":
        return [dict(n=3, seed=4), dict(n=1000, seed=1)]
    return [dict()]


def _mk_model(core, ctx=None):
    # how many observations the model holds (none yet - the first round of a screen -, or some): the schedule is the same
    nobs = int(ctx.int("nobs", 0, 2)) if ctx is not None else 3

    class Counting(core.MCMCModel):
        """a model that counts its steps; the whole BayesianModel / MCMCModel interface is there"""

        def __init__(self):
            self.nobs = nobs
            self.steps = 17  # stale state from an earlier run: reset must clear it
            self.resets = []
            self.rng_ = None
            self.rng_set_at = None

        def reset_model(self):
            self.resets.append(self.steps)
            self.steps = 0

        def set_rng(self, rng):
            self.rng_ = rng
            self.rng_set_at = self.steps

        def step(self):
            self.steps = self.steps + 1

        def get_model_state(self):
            return self.steps

        def n_obs(self):
            return self.nobs

        def _add_observations(self, data):
            self.nobs += int(data.size)

        @property
        def rng(self):
            return self.rng_
    return Counting()


def h_schedule(ctx, cfg):
    core = ctx.mod("batchie.core")
    sampling = ctx.mod("batchie.sampling")
    b = int(ctx.int("b", 0, cfg["bmax"]))
    t = int(ctx.int("t", 1, cfg["tmax"]))
    n = int(ctx.int("n", 1, cfg["nmax"]))
    m = _mk_model(core, ctx)
    r = sampling.sample(m, core.ThetaHolder(n_thetas=n), seed=0, n_chains=2, chain_index=1, n_burnin=b, thin=t)
    ctx.observe("thetas", list(r.thetas))
    ctx.prove(len(m.resets) == 1, "model reset exactly once")
    ctx.prove(m.rng_set_at == 0, "generator installed before the first step")
    ctx.prove(m.steps == b + n * t, "exactly b + n*t steps")
    ctx.prove(list(r.thetas) == [b + t * (j + 1) for j in range(n)], "recorded states are those after steps b+t, b+2t, ..., b+n*t")
    ctx.prove(r.is_complete, "collection complete")
    return [b, t, n]


class _OpenHolder:
    def __init__(self, n):
        self.n_thetas = n
        self.thetas = []

    def add_theta(self, x):
        self.thetas.append(x)


def h_lemma(ctx, cfg):
    """one arbitrary iteration of the thinning loop from an arbitrary reachable counter value"""
    core = ctx.mod("batchie.core")
    sampling = ctx.mod("batchie.sampling")
    if not ctx.symbolic:
        return h_schedule_replay(ctx)
    b, t, n = ctx.int("b", 0), ctx.int("t", 1), ctx.int("n", 1)
    i = ctx.int("i", 0)
    m = _mk_model(core, ctx)
    calls = []
    saved = sampling.trange

    def fake_trange(count, disable=True):
        calls.append(count)
        if len(calls) == 1:
            ctx.prove(count == b, "burn-in loop runs b iterations")
            return iter(())
        ctx.prove(count == n * t, "sampling loop runs n*t iterations")
        ctx.assume(i < count)
        m.steps = b + i  # b burn-in steps and i earlier sampling iterations have happened
        return iter([i])
    sampling.trange = fake_trange
    holder = _OpenHolder(n)
    try:
        sampling.sample(m, holder, seed=0, n_chains=1, chain_index=0, n_burnin=b, thin=t)
    finally:
        sampling.trange = saved
    ctx.prove(len(calls) == 2, "two loops: burn-in then sampling")
    ctx.prove(m.steps == b + i + 1, "each iteration advances the model by exactly one step")
    recorded = len(holder.thetas) == 1
    divides = ((i + 1) % t) == 0
    ctx.prove(divides if recorded else ctx.Not(divides), "a state is recorded at iteration i iff t divides i+1")
    if recorded:
        ctx.prove(holder.thetas[0] == b + i + 1, "the recorded state is the one after step b+i+1")
    return recorded


def h_schedule_replay(ctx):
    """concrete replay of a lemma counterexample: run the real loop and inspect iteration i"""
    core = ctx.mod("batchie.core")
    sampling = ctx.mod("batchie.sampling")
    b, t, n, i = ctx.int("b", 0), max(1, ctx.int("t", 1)), max(1, ctx.int("n", 1)), ctx.int("i", 0)
    b, t, n = min(b, 50), min(t, 20), min(n, 20)
    i = i % (n * t)
    m = _mk_model(core, ctx)
    r = sampling.sample(m, core.ThetaHolder(n_thetas=n), seed=0, n_chains=1, chain_index=0, n_burnin=b, thin=t)
    ctx.prove(list(r.thetas) == [b + t * (j + 1) for j in range(n)], "a state is recorded at iteration i iff t divides i+1")
    ctx.prove(m.steps == b + n * t, "each iteration advances the model by exactly one step")
    return 0


def h_stream(ctx, cfg):
    core = ctx.mod("batchie.core")
    sampling = ctx.mod("batchie.sampling")
    seed = ctx.int("seed", 0)
    nc = ctx.int("n_chains", 1)
    ci = ctx.int("chain_index", 0)
    ctx.assume(ci < nc, "chain index below the number of chains")
    m = _mk_model(core, ctx)
    # with the package's loggers at DEBUG (what --verbose configures) or at their default level: the same generator
    import logging
    loggers = [logging.getLogger("batchie")] + [v for v in vars(sampling).values() if isinstance(v, logging.Logger)]
    levels = [lg.level for lg in loggers]
    if ctx.is_true(ctx.bool("verbose")):
        for lg in loggers:
            lg.setLevel(logging.DEBUG)
    try:
        return _stream(ctx, core, sampling, m, seed, nc, ci)
    finally:
        for lg, lv in zip(loggers, levels):
            lg.setLevel(lv)


def _stream(ctx, core, sampling, m, seed, nc, ci):
    if ctx.mode != "real":
        saved = sampling.trange
        sampling.trange = lambda count, disable=True: iter(())
        try:
            sampling.sample(m, _OpenHolder(1), seed=seed, n_chains=nc, chain_index=ci, n_burnin=0, thin=1)
            first = m.rng_.token
            # an identical triple later in the same process must select the same child again
            sampling.sample(m, _OpenHolder(1), seed=seed, n_chains=nc, chain_index=ci, n_burnin=0, thin=1)
        finally:
            sampling.trange = saved
        tok = m.rng_.token
        ctx.prove(first is not None and tok is not None and len(first) == len(tok) == 3 and first[0] == tok[0]
                  and ctx.is_true(ctx.And(first[1] == tok[1], first[2] == tok[2])),
                  "identical (seed, n_chains, chain_index) later in the same process: identical generator", key="stream depends on call history")
        ctx.prove(m.rng_.stream == "seeded" and tok is not None and tok[0] == "child",
                  "generator is default_rng of a spawned child of SeedSequence(seed)")
        ctx.prove(m.rng_.count == 0 and not m.rng_.log, "the generator is handed to the model at the start of its stream (nothing drawn from it on the way)",
                  key="draws taken from the chain's generator before the model gets it")
        if tok is not None and tok[0] == "child":
            ctx.prove(tok[1] == seed, "child of the given seed")
            ctx.prove(tok[2] == ci, "child selected by the chain index (distinct chains: distinct children)")
        return 1
    import numpy
    nc, ci = min(nc, 64), ci
    sampling.sample(m, core.ThetaHolder(n_thetas=1), seed=seed, n_chains=nc, chain_index=ci, n_burnin=0, thin=1)
    st1 = m.rng_.bit_generator.state
    sampling.sample(m, core.ThetaHolder(n_thetas=1), seed=seed, n_chains=nc, chain_index=ci, n_burnin=0, thin=1)
    ctx.prove(m.rng_.bit_generator.state == st1, "identical (seed, n_chains, chain_index) later in the same process: identical generator",
              key="stream depends on call history")
    want = numpy.random.default_rng(numpy.random.SeedSequence(seed).spawn(nc)[ci])
    same = st1 == want.bit_generator.state
    ctx.prove(same, "child selected by the chain index (distinct chains: distinct children)")
    for other in range(min(nc, 4)):
        if other != ci:
            o = numpy.random.default_rng(numpy.random.SeedSequence(seed).spawn(nc)[other])
            ctx.prove(o.bit_generator.state != want.bit_generator.state, "child selected by the chain index (distinct chains: distinct children)")
    return 1


def h_vi(ctx, cfg):
    core = ctx.mod("batchie.core")
    sampling = ctx.mod("batchie.sampling")
    n = int(ctx.int("n", 1, cfg["nmax"]))
    seed = ctx.int("seed", 0)

    class VI(core.VIModel):
        def __init__(self):
            self.calls = []
            self.resets = 0
            self.rng_ = None

        def reset_model(self):
            self.resets += 1

        def set_rng(self, rng):
            self.rng_ = rng

        def sample(self, num_samples):
            self.calls.append(num_samples)
            return ["s%d" % k for k in range(num_samples)]
    m = VI()
    r = sampling.sample(m, core.ThetaHolder(n_thetas=n), seed=seed)
    ctx.prove(m.calls == [n], "variational model asked for exactly n samples, once")
    ctx.prove(list(r.thetas) == ["s%d" % k for k in range(n)] and r.is_complete, "all n samples stored in order")
    ctx.prove(m.resets == 1, "model reset exactly once")
    if ctx.mode != "real":
        ctx.prove(m.rng_.token == ("seed", seed) or (m.rng_.token[0] == "seed" and ctx.is_true(m.rng_.token[1] == seed)),
                  "variational model's generator is default_rng(seed)")
    return n


def h_vi_any(ctx, cfg):
    """the request a variational model receives, for an arbitrary (unbounded) requested count: the model's answer is cut
    short (one sample), so only the request itself is examined - exactly n, exactly once"""
    core = ctx.mod("batchie.core")
    sampling = ctx.mod("batchie.sampling")
    n = ctx.int("n", 1)
    seed = ctx.int("seed", 0)
    calls = []

    class VI(core.VIModel):
        def reset_model(self):
            pass

        def set_rng(self, rng):
            pass

        def sample(self, num_samples):
            calls.append(num_samples)
            if len(calls) > 1:
                ctx.fail("variational model asked more than once", key="variational model not asked for exactly n samples once")
            ctx.prove(num_samples == n, "variational model asked for exactly n samples (n arbitrary)",
                      key="variational model not asked for exactly n samples once")
            return ["s0"]
    sampling.sample(VI(), core.ThetaHolder(n_thetas=n), seed=seed)
    ctx.prove(len(calls) == 1, "variational model asked exactly once", key="variational model not asked for exactly n samples once")
    return len(calls)


def h_args(ctx, cfg):
    core = ctx.mod("batchie.core")
    sampling = ctx.mod("batchie.sampling")
    m = _mk_model(core, ctx)
    full = dict(n_chains=1, chain_index=0, n_burnin=0, thin=1)
    for missing in full:
        kw = {k: v for k, v in full.items() if k != missing}
        try:
            sampling.sample(m, core.ThetaHolder(n_thetas=1), seed=0, **kw)
            ctx.fail("MCMC sampling without %s accepted" % missing)
        except ValueError:
            ctx.prove(True, "MCMC sampling requires %s" % missing)
    try:
        sampling.sample(object(), core.ThetaHolder(n_thetas=1), seed=0)
        ctx.fail("a non-model was accepted")
    except ValueError:
        ctx.prove(True, "objects that are neither MCMC nor VI models are refused")
    return 1


def run(ctx, cfg):
    return {"schedule": h_schedule, "lemma": h_lemma, "stream": h_stream, "vi": h_vi, "vi_any": h_vi_any, "args": h_args}[cfg["h"]](ctx, cfg)
