"""C14 - subset and plate views are exact row selections with set-algebra semantics."""
PROPERTY = "C14"
LEVEL = "model_checking"
FUNCTIONS = [
    "batchie.data.ScreenSubset (attribute properties, subset, combine, concat, invert, to_screen)",
    "batchie.data.Plate (plate_id, plate_name)",
    "batchie.data.Screen.subset / subset_observed / subset_unobserved / get_plate / plates",
    "batchie.data.filter_dataset_to_unique_treatments",
    "batchie.common.select_unique_zipped_numpy_arrays",
]
BOUNDS = {
    "quick": "screens of 4 rows (3 structures with duplicate conditions, single-agent rows, 1-3 plates); every boolean selection (all 2^4), every nested selection of it, every second parent-level selection; observed/unobserved split after set_observed on every row selection and after every Plate.merge; unique filter on 3 rows x 2 symbolic integer columns; plate / observed / unobserved views with observation values of every float class (NaN, +-inf, -0.0); a fourth structure with single-agent replicates across plates, single_treatment_effects among the per-experiment attributes",
    "thorough": "screens of 5 and 6 rows; unique filter on 4 rows x 3 symbolic integer columns",
}
ASSUMPTIONS = [
    "row attributes: names/doses concrete per structure (Screen construction on arbitrary names is C01's business); observations are symbolic reals acting as unforgeable row tags",
    "numpy model validated against numpy on the fixtures of this run",
]
OUTSIDE = ["screens above the row bound", "compositions deeper than subset(subset()) + combine/invert/to_screen"]
RULE = "every selection bit is a solver-decided fork; observation values stay symbolic on each path."
BUDGET_S = {"quick": 600, "thorough": 3000}
TASK_QUOTA = 120

# (sample, t1, d1, t2, d2, plate)
STRUCTS = {
    "A": [("s1", "a", 1.0, "b", 1.0, "p1"), ("s1", "a", 1.0, "b", 1.0, "p2"), ("s2", "a", 1.0, "", 0.0, "p1"),
          ("s1", "b", 2.0, "a", 1.0, "p2"), ("s2", "a", 1.0, "b", 1.0, "p3"), ("s2", "a", 1.0, "", 0.0, "p3")],
    "B": [("s1", "a", 1.0, "a", 2.0, "p1"), ("s1", "a", 2.0, "a", 1.0, "p1"), ("s1", "a", 1.0, "a", 2.0, "p1"),
          ("s1", "c", 1.0, "", 0.0, "p1"), ("s3", "c", 1.0, "", 0.0, "p1"), ("s1", "", 0.0, "", 0.0, "p1")],
    "C": [("s2", "b", 1.0, "c", 1.0, "q"), ("s1", "b", 1.0, "c", 1.0, "p"), ("s2", "b", 1.0, "c", 1.0, "p"),
          ("s1", "b", 1.0, "c", 1.0, "q"), ("s1", "b", 1.0, "c", 1.0, "r"), ("s2", "c", 1.0, "b", 1.0, "r")],
    # single-agent measurements replicated across plates (the single-agent effect of a row is a mean over the whole screen)
    "D": [("s1", "a", 1.0, "", 0.0, "p1"), ("s1", "a", 1.0, "", 0.0, "p2"), ("s1", "", 0.0, "b", 1.0, "p1"),
          ("s1", "a", 1.0, "b", 1.0, "p1"), ("s1", "", 0.0, "b", 1.0, "p2"), ("s2", "a", 1.0, "", 0.0, "p2")],
}
OBSERVED_PLATES = {"A": {"p1"}, "B": set(), "C": {"q", "r"}, "D": {"p1"}}


def configs(tier, seed):
    out = []
    for R in ((4,) if tier == "quick" else (4, 5, 6)):
        for st in ("A", "B", "C", "D"):
            out.append(dict(name="views %s R=%d" % (st, R), h="views", st=st, R=R))
            out.append(dict(name="plates %s R=%d" % (st, R), h="plates", st=st, R=R))
            out.append(dict(name="split after set_observed / merge %s R=%d" % (st, R), h="split", st=st, R=R))
    # stored values of every float class (NaN, +-inf, -0.0 next to finite ones), observed or not: views select by the mask alone
    for st in ("A", "B"):
        out.append(dict(name="plates %s R=4, observation values of every float class" % st, h="plates", st=st, R=4, special=True))
    out.append(dict(name="unique-kernel", h="uniq", n=3 if tier == "quick" else 4, cols=2 if tier == "quick" else 3))
    return out


def fixtures(cfg):
    if cfg["h"] == "uniq":
        return [dict(u0_0=1, u1_0=1, u2_0=0, u0_1=0, u1_1=0, u2_1=0, u3_0=1, u3_1=0, u0_2=2, u1_2=2, u2_2=2, u3_2=2),
                dict(u0_0=-1, u1_0=3, u2_0=-1, u0_1=2, u1_1=2, u2_1=2)]
    out = []
    for bits in (0b1011, 0b0110, 0b1111, 0b0000, 0b101101):
        v = {"obs%d" % i: 0.1 * (i + 1) for i in range(6)}
        if cfg.get("special"):
            v.update({"obs0#cls": bits % 5, "obs1#cls": (bits + 1) % 5, "obs2#cls": 1, "obs3#cls": (bits + 2) % 5})
        for i in range(6):
            v["sel%d" % i] = bool(bits >> i & 1)
            v["sub%d" % i] = bool((bits * 5) >> i & 1)
            v["oth%d" % i] = bool((bits * 3 + 1) >> i & 1)
            v["nv%d" % i] = 0.91 - 0.1 * i
        v.update(ma=bits % 2, mb=(bits + 1) % 2)
        out.append(v)
    return out


_SPECIAL = [False]


def _screen(ctx, data, st, R, special=False):
    np = ctx.np
    rows = STRUCTS[st][:R]
    _SPECIAL[0] = bool(special)
    obs = [(ctx.float_bits if special else ctx.real)("obs%d" % i) for i in range(R)]
    mask = [r[5] in OBSERVED_PLATES[st] for r in rows]
    s = data.Screen(
        treatment_names=np.array([[r[1], r[3]] for r in rows], dtype=str),
        treatment_doses=np.array([[r[2], r[4]] for r in rows], dtype=float),
        sample_names=np.array([r[0] for r in rows], dtype=str),
        plate_names=np.array([r[5] for r in rows], dtype=str),
        observations=np.array(obs, dtype=float),
        observation_mask=np.array(mask, dtype=bool),
        control_treatment_name="")
    return s, rows, obs, mask


ATTRS = ["plate_ids", "sample_ids", "treatment_ids", "sample_names", "treatment_names", "treatment_doses",
         "observations", "observation_mask"]


def _attr_rows(x, name):
    return getattr(x, name).tolist()


def _eq_rows(ctx, a, b):
    if isinstance(a, list) != isinstance(b, list):
        return False
    if isinstance(a, list):
        if len(a) != len(b):
            return False
        r = True
        for x, y in zip(a, b):
            r = ctx.And(r, _eq_rows(ctx, x, y))
        return r
    if isinstance(a, str) or isinstance(b, str):
        return a == b
    return ctx.same(a, b) if _SPECIAL[0] else ctx.eq(a, b)


def _check_view(ctx, view, screen, idx, label):
    for at in ATTRS:
        want = [_attr_rows(screen, at)[i] for i in idx]
        got = _attr_rows(view, at)
        ctx.prove(_eq_rows(ctx, got, want), label + ": %s = parent's values at the selected rows, in order" % at)
    ctx.prove(view.size == len(idx), label + ": size is the number of selected rows")
    # the single-agent effects of a row are a property of the parent screen (means over all its single-agent measurements)
    pe = screen.single_treatment_effects
    ve = view.single_treatment_effects
    if pe is None:
        ctx.prove(ve is None, label + ": single_treatment_effects is None when the parent has none")
    else:
        ctx.prove(ve is not None and _eq_rows(ctx, ve.tolist(), [pe.tolist()[i] for i in idx]),
                  label + ": single_treatment_effects = parent's values at the selected rows, in order",
                  key="view reports single-agent effects of its own instead of the parent's")


def _bits(ctx, prefix, n):
    return [ctx.is_true(ctx.bool("%s%d" % (prefix, i))) for i in range(n)]


def h_views(ctx, cfg):
    np = ctx.np
    data = ctx.mod("batchie.data")
    R = cfg["R"]
    screen, rows, obs, mask = _screen(ctx, data, cfg["st"], R)
    sel = _bits(ctx, "sel", R)
    idx = [i for i in range(R) if sel[i]]
    v = screen.subset(np.array(sel, dtype=bool))
    _check_view(ctx, v, screen, idx, "subset")
    ctx.observe("obs", v.observations.tolist())
    # nested selection
    sub = _bits(ctx, "sub", len(idx))
    before = v.selection_vector.tolist()
    v2 = v.subset(np.array(sub, dtype=bool))
    idx2 = [i for i, b in zip(idx, sub) if b]
    _check_view(ctx, v2, screen, idx2, "subset of subset")
    ctx.prove(v.selection_vector.tolist() == before, "nested subsetting leaves the outer view's selection untouched")
    ctx.prove(v2.screen is screen, "nested subset is a view of the same parent")
    # set algebra with a second parent-level selection
    oth = _bits(ctx, "oth", R)
    w = screen.subset(np.array(oth, dtype=bool))
    union = [i for i in range(R) if sel[i] or oth[i]]
    _check_view(ctx, v.combine(w), screen, union, "combine")
    _check_view(ctx, data.ScreenSubset.concat([v, w]), screen, union, "concat")
    _check_view(ctx, data.ScreenSubset.concat([v, w, v2]), screen, union, "concat of three")
    ctx.prove(data.ScreenSubset.concat([v]) is v, "concat of one view is that view")
    _check_view(ctx, v.invert(), screen, [i for i in range(R) if not sel[i]], "invert")
    _check_view(ctx, v.invert().invert(), screen, idx, "double invert")
    ctx.prove(v.selection_vector.tolist() == before and w.selection_vector.tolist() == oth,
              "combine / concat / invert do not modify their operands")
    # materialise
    if idx:
        m = v.to_screen()
        for at, col in (("sample_names", 0), ("plate_names", 5)):
            ctx.prove(getattr(m, at).tolist() == [rows[i][col] for i in idx], "to_screen: same %s in the same order" % at)
        ctx.prove(m.treatment_names.tolist() == [[rows[i][1], rows[i][3]] for i in idx], "to_screen: same treatment names in the same order")
        ctx.prove(m.treatment_doses.tolist() == [[rows[i][2], rows[i][4]] for i in idx], "to_screen: same doses in the same order")
        ctx.prove(_eq_rows(ctx, m.observations.tolist(), [obs[i] for i in idx]), "to_screen: same observation values in the same order")
        ctx.prove(m.observation_mask.tolist() == [mask[i] for i in idx], "to_screen: same observation mask")
        ctx.prove(m.control_treatment_name == screen.control_treatment_name, "to_screen keeps the control name")
    # unique-condition filter on the view
    u = data.filter_dataset_to_unique_treatments(v)
    keys = {}
    sid, tid = screen.sample_ids.tolist(), screen.treatment_ids.tolist()
    for i in idx:
        keys.setdefault((sid[i], tuple(tid[i])), []).append(i)
    usel = u.selection_vector.tolist()
    ctx.prove(all((not usel[i]) or sel[i] for i in range(R)), "unique filter selects only rows of the view")
    for k, members in keys.items():
        ctx.prove(sum(1 for i in members if usel[i]) == 1, "unique filter keeps exactly one experiment per distinct (sample, treatments) condition")
    ctx.prove(v.selection_vector.tolist() == before, "unique filter does not modify the view it filters")
    # views of different parents refuse to combine
    other, _, _, _ = _screen2(ctx, data, cfg["st"], R)
    try:
        v.combine(other.subset(np.array(oth, dtype=bool)))
        ctx.fail("views of different parent screens were combined")
    except ValueError:
        ctx.prove(True, "views of different parent screens refuse to combine")
    try:
        data.ScreenSubset.concat([v, other.subset(np.array(oth, dtype=bool))])
        ctx.fail("views of different parent screens were concatenated")
    except ValueError:
        ctx.prove(True, "views of different parent screens refuse to concat")
    return len(idx)


def _screen2(ctx, data, st, R):
    np = ctx.np
    rows = STRUCTS[st][:R]
    s = data.Screen(
        treatment_names=np.array([[r[1], r[3]] for r in rows], dtype=str),
        treatment_doses=np.array([[r[2], r[4]] for r in rows], dtype=float),
        sample_names=np.array([r[0] for r in rows], dtype=str),
        plate_names=np.array([r[5] for r in rows], dtype=str),
        control_treatment_name="")
    return s, rows, None, None


def h_plates(ctx, cfg):
    np = ctx.np
    data = ctx.mod("batchie.data")
    R = cfg["R"]
    screen, rows, obs, mask = _screen(ctx, data, cfg["st"], R, cfg.get("special"))
    ob, un = screen.subset_observed(), screen.subset_unobserved()
    oi = [i for i in range(R) if mask[i]]
    ui = [i for i in range(R) if not mask[i]]
    if oi:
        _check_view(ctx, ob, screen, oi, "subset_observed")
    else:
        ctx.prove(ob is None, "subset_observed is None when nothing is observed")
    if ui:
        _check_view(ctx, un, screen, ui, "subset_unobserved")
    else:
        ctx.prove(un is None, "subset_unobserved is None when everything is observed")
    pids = screen.plate_ids.tolist()
    plates = screen.plates
    ctx.prove(len(plates) == len(set(r[5] for r in rows)), "one plate view per distinct plate")
    covered = []
    for p in plates:
        pid = p.plate_id
        members = [i for i in range(R) if pids[i] == pid]
        _check_view(ctx, p, screen, members, "plate view")
        ctx.prove(p.plate_name == rows[members[0]][5], "plate_name is the name of the plate's rows")
        _check_view(ctx, screen.get_plate(pid), screen, members, "get_plate")
        covered.extend(members)
    ctx.prove(sorted(covered) == list(range(R)), "plate views partition the screen")
    # views that are Plate objects but span several plates (combine / concat / invert of plate views), materialised
    if len(plates) >= 2:
        sv = [p.selection_vector.tolist() for p in plates]
        spans = [("first plate combined with the last", plates[0].combine(plates[-1]), [i for i in range(R) if sv[0][i] or sv[-1][i]]),
                 ("concatenation of all plate views", data.ScreenSubset.concat(plates), list(range(R))),
                 ("complement of the first plate", plates[0].invert(), [i for i in range(R) if not sv[0][i]])]
        for what, view, members in spans:
            _check_view(ctx, view, screen, members, what)
            uniform = len({mask[i] for i in members if rows[i][5] == rows[members[0]][5]}) == 1
            try:
                m = view.to_screen()
            except ValueError:
                ctx.prove(False if uniform and len({(rows[i][5], mask[i]) for i in members}) == len({rows[i][5] for i in members}) else True,
                          "to_screen of a view spanning several plates", key="to_screen refused a legal multi-plate view")
                continue
            ctx.prove(m.plate_names.tolist() == [rows[i][5] for i in members] and m.sample_names.tolist() == [rows[i][0] for i in members],
                      "to_screen (%s): same plate names and sample names in the same order" % what, key="to_screen changed plate names of a multi-plate view")
            ctx.prove(_eq_rows(ctx, m.observations.tolist(), [obs[i] for i in members]) and m.observation_mask.tolist() == [mask[i] for i in members],
                      "to_screen (%s): same observation values and mask" % what)
    # whole-screen unique filter
    u = data.filter_dataset_to_unique_treatments(screen)
    sid, tid = screen.sample_ids.tolist(), screen.treatment_ids.tolist()
    keys = {}
    for i in range(R):
        keys.setdefault((sid[i], tuple(tid[i])), []).append(i)
    usel = u.selection_vector.tolist()
    for k, members in keys.items():
        ctx.prove(sum(1 for i in members if usel[i]) == 1, "unique filter keeps exactly one experiment per distinct (sample, treatments) condition")
    ctx.observe("usel", usel)
    # argument validation
    for bad, why in ((np.array([1] * R, dtype=int), "non-boolean"), (np.array([True] * (R + 1), dtype=bool), "wrong length")):
        try:
            screen.subset(bad)
            ctx.fail("subset accepted a %s selection" % why)
        except ValueError:
            ctx.prove(True, "subset rejects a %s selection" % why)
    return len(plates)


def h_split(ctx, cfg):
    """the observed / unobserved views split the screen by its mask *as it is now*: after set_observed on an arbitrary
    selection of rows (part of a plate included) and after merging an observed plate into an unobserved one"""
    np = ctx.np
    data = ctx.mod("batchie.data")
    R = cfg["R"]
    screen, rows, obs, mask = _screen(ctx, data, cfg["st"], R)
    sel = _bits(ctx, "sel", R)
    k = sum(1 for b in sel if b)
    new = [ctx.real("nv%d" % i) for i in range(k)]
    # views taken (and read) before the parent changes: they are views, not snapshots
    oth = _bits(ctx, "oth", R)
    early = screen.subset(np.array(oth, dtype=bool))
    early_plates = screen.plates
    pids = screen.plate_ids.tolist()
    _ = (early.observation_mask.tolist(), early.observations.tolist(), early.is_observed, [p.is_observed for p in early_plates])
    screen.set_observed(np.array(sel, dtype=bool), np.array(new, dtype=float))
    now = [mask[i] or sel[i] for i in range(R)]
    ctx.prove(screen.observation_mask.tolist() == now, "set_observed marks the selected rows observed")
    _check_view(ctx, early, screen, [i for i in range(R) if oth[i]], "view taken before set_observed")
    ctx.prove(bool(early.is_observed) == all(now[i] for i in range(R) if oth[i]), "a view's is_observed follows the parent's current mask",
              key="view taken before set_observed reports stale observation status")
    for p in early_plates:
        members = [i for i in range(R) if pids[i] == p.plate_id]
        _check_view(ctx, p, screen, members, "plate view taken before set_observed")
        ctx.prove(bool(p.is_observed) == all(now[i] for i in members), "a plate view's is_observed follows the parent's current mask",
                  key="view taken before set_observed reports stale observation status")

    def split(label, now):
        ob, un = screen.subset_observed(), screen.subset_unobserved()
        oi = [i for i in range(R) if now[i]]
        ui = [i for i in range(R) if not now[i]]
        if oi:
            _check_view(ctx, ob, screen, oi, "subset_observed " + label)
        else:
            ctx.prove(ob is None, "subset_observed is None when nothing is observed " + label)
        if ui:
            _check_view(ctx, un, screen, ui, "subset_unobserved " + label)
        else:
            ctx.prove(un is None, "subset_unobserved is None when everything is observed " + label)
        if oi and ui:
            so, su = ob.selection_vector.tolist(), un.selection_vector.tolist()
            ctx.prove(all(so[i] != su[i] for i in range(R)), "observed and unobserved views partition the screen " + label,
                      key="observed / unobserved views do not partition the screen")
    split("after set_observed", now)
    plates = screen.plates
    if len(plates) >= 2:
        a = int(ctx.int("ma", 0, len(plates) - 1))
        b = int(ctx.int("mb", 0, len(plates) - 1))
        if a != b:
            before_rows = [i for i in range(R) if plates[a].selection_vector.tolist()[i] or plates[b].selection_vector.tolist()[i]]
            merged = plates[a].merge(plates[b])
            ctx.prove([i for i in range(R) if merged.selection_vector.tolist()[i]] == before_rows, "merged plate holds the rows of both plates")
            ctx.prove(screen.observation_mask.tolist() == now, "merging plates does not change any row's observation status")
            split("after Plate.merge", now)
    return k


def h_uniq(ctx, cfg):
    """select_unique_zipped_numpy_arrays on directly symbolic integer columns"""
    np = ctx.np
    common = ctx.mod("batchie.common")
    n, cols = cfg["n"], cfg["cols"]
    arrs = [[ctx.int("u%d_%d" % (i, c), -1, 2) for i in range(n)] for c in range(cols)]
    mask = common.select_unique_zipped_numpy_arrays([np.array(a, dtype=int) for a in arrs]).tolist()
    ctx.observe("mask", mask)
    ctx.prove(len(mask) == n, "one flag per row")
    for i in range(n):
        same_sel = 0
        for j in range(n):
            same = True
            for c in range(cols):
                same = ctx.And(same, arrs[c][i] == arrs[c][j])
            same_sel = same_sel + ctx.ite(ctx.And(same, mask[j]), 1, 0)
        ctx.prove(same_sel == 1, "exactly one selected row among the rows equal to row i in every column")
    try:
        common.select_unique_zipped_numpy_arrays([np.array(arrs[0], dtype=int), np.array(arrs[0][:-1], dtype=int)])
        ctx.fail("arrays of different length accepted")
    except ValueError:
        ctx.prove(True, "arrays of different length are rejected")
    return n


def run(ctx, cfg):
    return {"views": h_views, "plates": h_plates, "split": h_split, "uniq": h_uniq}[cfg["h"]](ctx, cfg)
