"""C01 - Screen identifiers are a faithful, dense encoding of names and doses."""
PROPERTY = "C01"
LEVEL = "model_checking"
FUNCTIONS = [
    "batchie.data.encode_treatment_arrays_to_0_indexed_ids",
    "batchie.data.encode_1d_array_to_0_indexed_ids",
    "batchie.data.numpy_array_is_0_indexed_integers",
    "batchie.data.Screen.__init__",
    "batchie.data.ExperimentSpace.n_unique_treatments / n_unique_samples / from_screen",
    "batchie.data.Plate.merge (plate names, plate ids and plate mapping of the parent screen)",
]
BOUNDS = {
    "quick": "treatment encoder: <=3 (name,dose) rows + <=1 extra mapping row; 1-d encoder: <=3 names + <=1 extra; ; names solver-chosen from a pool of unequal lengths with shared prefixes; 300 distinct concrete names with one symbolic dose; bad mappings alone and next to a valid one; "
             "Screen: 2 rows x arity<=2 (and 1 row x arity 3); names/control name arbitrary strings up to order-isomorphism, doses arbitrary reals; Plate.merge: 4 rows with symbolic plate names, two consecutive merges of solver-chosen plate pairs; one 2x2 screen whose name / dose arrays are transposed views (memory order differs from index order), either or both",
    "thorough": "treatment encoder: <=4 rows, and 3+1 / 2+2 with superset mapping; 1-d encoder: <=5, 3+2; Screen: up to 4 (name,dose) cells fully symbolic (2x2 one plate), up to 4 cells with concrete doses for arity 3-4 and superset mappings; pool-name configurations with more rows; 1000 distinct names; Plate.merge: 4 rows / three merges and 5 rows / two merges",
}
ASSUMPTIONS = [
    "names are only compared, sorted, hashed and copied (model raises ModelGap on any other string operation), so a name is an atom of a totally ordered sort",
    "doses are finite reals (no NaN), as in the property's quantifier",
    "pandas subset model (drop_duplicates, stable sort_values, reset_index, rename, left merge, .loc assignment, cumsum, notna) validated against pandas on concrete fixtures in this run",
]
OUTSIDE = ["unicode normalisation / byte encoding of actual strings", "pandas behaviour on NaN or mixed-type keys",
           "more distinct (name,dose) pairs than the bound"]
RULE = "Row structure (which names/doses coincide, which are control) is chosen by the solver through the comparisons pandas/numpy make."
BUDGET_S = {"quick": 600, "thorough": 3000}


def configs(tier, seed):
    out = []
    if tier == "quick":
        for n, m in ((1, 0), (2, 0), (3, 0), (2, 1)):
            out.append(dict(name="treat n=%d m=%d" % (n, m), h="treat", n=n, m=m))
        for n, m in ((3, 0), (2, 1)):
            out.append(dict(name="one_d n=%d m=%d" % (n, m), h="one_d", n=n, m=m))
        out.append(dict(name="screen r=2 a=1", h="screen", rows=2, arity=1, extra=0))
        out.append(dict(name="screen r=1 a=2", h="screen", rows=1, arity=2, extra=0))
        out.append(dict(name="screen r=2 a=2 fixed-doses", h="screen", rows=2, arity=2, extra=0, doses="fixed", plates="one"))
        out.append(dict(name="screen r=1 a=3 fixed-doses", h="screen", rows=1, arity=3, extra=0, doses="fixed"))
        out.append(dict(name="screen r=2 a=2 fixed-doses, name / dose arrays assembled column by column (transposed views)", h="screen", rows=2, arity=2,
                        extra=0, doses="fixed", plates="one", layout=True, combine=False))
        out.append(dict(name="screen r=1 a=1 +1", h="screen", rows=1, arity=1, extra=1))
        out.append(dict(name="screen r=1 a=2 +1 fixed-doses", h="screen", rows=1, arity=2, extra=1, doses="fixed", plates="one"))
        out.append(dict(name="badmap n=2", h="badmap", n=2))
        out.append(dict(name="300 distinct names", h="many", N=300))
        out.append(dict(name="combine / concat, concrete names n=2", h="combine", n=2, pool=True))
        out.append(dict(name="treat n=1 m=2 names of unequal length", h="treat", n=1, m=2, pool=True))
        out.append(dict(name="plate ids after Plate.merge, 4 rows", h="merge", rows=4, merges=2))
        out.append(dict(name="one_d n=2 m=2 names of unequal length", h="one_d", n=2, m=2, pool=True))
    else:
        out.append(dict(name="300 distinct names", h="many", N=300))
        out.append(dict(name="1000 distinct names", h="many", N=1000))
        out.append(dict(name="plate ids after Plate.merge, 4 rows", h="merge", rows=4, merges=3))
        out.append(dict(name="plate ids after Plate.merge, 5 rows", h="merge", rows=5, merges=2))
        out.append(dict(name="combine / concat, concrete names n=3", h="combine", n=3, pool=True))
        out.append(dict(name="treat n=2 m=2 names of unequal length", h="treat", n=2, m=2, pool=True))
        out.append(dict(name="one_d n=2 m=3 names of unequal length", h="one_d", n=2, m=3, pool=True))
        out.append(dict(name="one_d n=3 m=2 names of unequal length", h="one_d", n=3, m=2, pool=True))
        for n, m in ((1, 0), (2, 0), (3, 0), (4, 0), (2, 1), (3, 1), (2, 2)):
            out.append(dict(name="treat n=%d m=%d" % (n, m), h="treat", n=n, m=m))
        for n, m in ((4, 0), (5, 0), (3, 2)):
            out.append(dict(name="one_d n=%d m=%d" % (n, m), h="one_d", n=n, m=m))
        for r, a, x in ((2, 1, 0), (1, 2, 0), (1, 1, 1), (2, 1, 1)):
            out.append(dict(name="screen r=%d a=%d +%d" % (r, a, x), h="screen", rows=r, arity=a, extra=x))
        out.append(dict(name="screen r=2 a=2 +0 one-plate", h="screen", rows=2, arity=2, extra=0, plates="one"))
        out.append(dict(name="screen r=2 a=2 fixed-doses, name / dose arrays assembled column by column (transposed views)", h="screen", rows=2, arity=2,
                        extra=0, doses="fixed", plates="one", layout=True, combine=False))
        for r, a, x in ((2, 2, 0), (1, 3, 0), (1, 2, 1), (1, 4, 0), (1, 3, 1)):
            out.append(dict(name="screen r=%d a=%d +%d fixed-doses" % (r, a, x), h="screen", rows=r, arity=a, extra=x,
                            doses="fixed", plates="one" if r * a > 4 else "sym"))
        out.append(dict(name="badmap n=2", h="badmap", n=2))
        out.append(dict(name="badmap n=3", h="badmap", n=3))
    return out


def fixtures(cfg):
    """concrete inputs pushed through modelled and real libraries (model validation);
    the first ones are the arrays of data_test.py"""
    if cfg.get("pool"):
        return [dict(nmk0=0, nmk1=1, nmk2=2, nmk3=3, nmk4=0, ctrlk=4, ds0=1.0, ds1=2.0, ds2=1.0, ds3=0.5),
                dict(nmk0=3, nmk1=0, nmk2=1, nmk3=3, nmk4=5, ctrlk=3, ds0=1.0, ds1=1.0, ds2=1.0, ds3=0.0)]
    if cfg["h"] == "treat":
        n, m = cfg["n"], cfg["m"]
        base = [dict(ctrl="", **{"nm%d" % i: v for i, v in enumerate(["a", "a", "b", "b", "", "a"])},
                     **{"ds%d" % i: v for i, v in enumerate([1.0, 2.0, 3.0, 4.0, 0.0, 1.0])}),
                dict(ctrl="zzz", **{"nm%d" % i: v for i, v in enumerate(["b", "zzz", "a", "b", "a", "a"])},
                     **{"ds%d" % i: v for i, v in enumerate([2.0, 1.0, 0.0, 2.0, -1.0, 5.0])}),
                dict(ctrl="a", **{"nm%d" % i: v for i, v in enumerate(["c", "b", "a", "c", "b", "c"])},
                     **{"ds%d" % i: v for i, v in enumerate([0.5, 0.5, 0.5, 0.25, 0.5, 0.5])})]
        return base
    if cfg["h"] == "one_d":
        return [{"nm%d" % i: v for i, v in enumerate(["a", "b", "a", "c", "", "b", "zz"])},
                {"nm%d" % i: v for i, v in enumerate(["z", "y", "x", "y", "x", "w", "v"])}]
    if cfg["h"] == "merge":
        return [dict(pn0="a", pn1="d", pn2="b", pn3="c", pn4="d", mg0_a=0, mg0_b=3, mg1_a=1, mg1_b=0, mg2_a=0, mg2_b=1),
                dict(pn0="q", pn1="q", pn2="a", pn3="z", pn4="m", mg0_a=1, mg0_b=0, mg1_a=0, mg1_b=1, mg2_a=0, mg2_b=1)]
    if cfg["h"] == "screen":
        vals = dict(ctrl="", sn0="s1", sn1="s0", sn2="s1", pn0="p", pn1="q", pn2="p", tn_T=True, td_T=True)
        names = ["a", "b", "", "a", "b", "c", "a", "a", "c", "d", "a", "b"]
        doses = [1.0, 2.0, 0.0, 1.0, 0.0, 3.0, 2.0, 1.0, 1.0, 1.0, 1.0, 2.0]
        k = 0
        for r in range(cfg["rows"] + cfg["extra"]):
            for c in range(cfg["arity"]):
                vals["nm%d_%d" % (r, c)] = names[k % len(names)]
                vals["ds%d_%d" % (r, c)] = doses[k % len(doses)]
                k += 1
        return [vals]
    return []


# names of unequal length with common prefixes: what numpy's fixed-width unicode arrays would truncate or confuse
POOL = ["ab", "abc", "abd", "zz", "", "a"]


def _names(ctx, cfg, k):
    if cfg.get("pool"):
        return [POOL[int(ctx.int("nmk%d" % i, 0, len(POOL) - 1))] for i in range(k)]
    return [ctx.str("nm%d" % i) for i in range(k)]


def _iff(ctx, a, b):
    return ctx.Or(ctx.And(a, b), ctx.And(ctx.Not(a), ctx.Not(b)))


def _check_treatment_encoding(ctx, names, doses, ctrl, ids, mn, md, mi, tag):
    U = len(mn)
    for i in range(len(names)):
        isc = ctx.Or(names[i] == ctrl, doses[i] <= 0)
        ctx.prove(_iff(ctx, ids[i] == -1, isc), tag + "sentinel iff control name or dose<=0")
        found = False
        for j in range(U):
            found = ctx.Or(found, ctx.And(mn[j] == names[i], md[j] == doses[i], mi[j] == ids[i]))
        ctx.prove(found, tag + "id decodes through the mapping to the row's (name,dose)")
    # mapping: non-control ids dense 0..k-1, distinct; control rows are exactly control
    k = 0
    for j in range(U):
        k = k + ctx.ite(mi[j] == -1, 0, 1)
    for j in range(U):
        isc = ctx.Or(mn[j] == ctrl, md[j] <= 0)
        ctx.prove(_iff(ctx, mi[j] == -1, isc), tag + "mapping: sentinel iff control")
        ctx.prove(ctx.Or(mi[j] == -1, ctx.And(mi[j] >= 0, mi[j] < k)), tag + "mapping: non-control ids within 0..k-1")
        for j2 in range(j):
            ctx.prove(ctx.Or(mi[j] == -1, mi[j] != mi[j2]), tag + "mapping: non-control ids pairwise distinct")
            ctx.prove(ctx.Not(ctx.And(mn[j] == mn[j2], md[j] == md[j2])), tag + "mapping: rows are distinct (name,dose) pairs")
    for i in range(len(names)):
        for i2 in range(i):
            same_pair = ctx.And(names[i] == names[i2], doses[i] == doses[i2])
            ctx.prove(ctx.Or(ctx.Not(same_pair), ids[i] == ids[i2]), tag + "equal (name,dose) => equal id")
            ctx.prove(ctx.Or(same_pair, ids[i] != ids[i2], ids[i] == -1), tag + "equal non-control id => equal (name,dose)")


def h_treat(ctx, cfg):
    np = ctx.np
    data = ctx.mod("batchie.data")
    n, m = cfg["n"], cfg["m"]
    names = _names(ctx, cfg, n + m)
    doses = [ctx.real("ds%d" % i) for i in range(n + m)]
    ctrl = POOL[int(ctx.int("ctrlk", 3, 4))] if cfg.get("pool") else ctx.str("ctrl")
    if m == 0:
        ids, mn, md, mi = data.encode_treatment_arrays_to_0_indexed_ids(
            np.array(names), np.array(doses, dtype=float), control_treatment_name=ctrl)
        ids, mn, md, mi = ids.tolist(), mn.tolist(), md.tolist(), mi.tolist()
        ctx.observe("ids", ids); ctx.observe("mn", mn); ctx.observe("md", md); ctx.observe("mi", mi)
        _check_treatment_encoding(ctx, names, doses, ctrl, ids, mn, md, mi, "")
        return len(mn)
    # supplied mapping produced by batchie itself on a superset of the data
    _, smn, smd, smi = data.encode_treatment_arrays_to_0_indexed_ids(
        np.array(names), np.array(doses, dtype=float), control_treatment_name=ctrl)
    ids, mn, md, mi = data.encode_treatment_arrays_to_0_indexed_ids(
        np.array(names[:n]), np.array(doses[:n], dtype=float), control_treatment_name=ctrl,
        existing_mapping=(smn, smd, smi))
    ids, mn, md, mi = ids.tolist(), mn.tolist(), md.tolist(), mi.tolist()
    ctx.observe("ids", ids); ctx.observe("mn", mn); ctx.observe("md", md); ctx.observe("mi", mi)
    s1, s2, s3 = smn.tolist(), smd.tolist(), smi.tolist()
    ctx.prove(len(mn) == len(s1), "supplied mapping returned verbatim (length)")
    for j in range(min(len(mn), len(s1))):
        ctx.prove(ctx.And(mn[j] == s1[j], md[j] == s2[j], mi[j] == s3[j]), "supplied mapping returned verbatim")
    _check_treatment_encoding(ctx, names[:n], doses[:n], ctrl, ids, mn, md, mi, "superset mapping: ")
    return len(mn)


def _check_1d(ctx, names, ids, mn, mi, tag):
    U = len(mn)
    for i in range(len(names)):
        found = False
        for j in range(U):
            found = ctx.Or(found, ctx.And(mn[j] == names[i], mi[j] == ids[i]))
        ctx.prove(found, tag + "id decodes to the row's name")
        for i2 in range(i):
            ctx.prove(_iff(ctx, names[i] == names[i2], ids[i] == ids[i2]), tag + "equal ids iff equal names")
    for j in range(U):
        ctx.prove(ctx.And(mi[j] >= 0, mi[j] < U), tag + "mapping ids within 0..n-1")
        for j2 in range(j):
            ctx.prove(ctx.And(mi[j] != mi[j2], mn[j] != mn[j2]), tag + "mapping ids and names pairwise distinct")


def h_one_d(ctx, cfg):
    np = ctx.np
    data = ctx.mod("batchie.data")
    n, m = cfg["n"], cfg["m"]
    names = _names(ctx, cfg, n + m)
    if m == 0:
        ids, mn, mi = data.encode_1d_array_to_0_indexed_ids(np.array(names))
        ids, mn, mi = ids.tolist(), mn.tolist(), mi.tolist()
        ctx.observe("ids", ids); ctx.observe("mn", mn); ctx.observe("mi", mi)
        _check_1d(ctx, names, ids, mn, mi, "")
        return len(mn)
    _, smn, smi = data.encode_1d_array_to_0_indexed_ids(np.array(names))
    ids, mn, mi = data.encode_1d_array_to_0_indexed_ids(np.array(names[:n]), existing_mapping=(smn, smi))
    ids, mn, mi = ids.tolist(), mn.tolist(), mi.tolist()
    ctx.observe("ids", ids); ctx.observe("mn", mn); ctx.observe("mi", mi)
    s1, s2 = smn.tolist(), smi.tolist()
    ctx.prove(len(mn) == len(s1), "supplied mapping returned verbatim (length)")
    for j in range(min(len(mn), len(s1))):
        ctx.prove(ctx.And(mn[j] == s1[j], mi[j] == s2[j]), "supplied mapping returned verbatim")
    _check_1d(ctx, names[:n], ids, mn, mi, "superset mapping: ")
    return len(mn)


def h_screen(ctx, cfg):
    np = ctx.np
    data = ctx.mod("batchie.data")
    R, A, X = cfg["rows"], cfg["arity"], cfg["extra"]
    tn = [[ctx.str("nm%d_%d" % (r, c)) for c in range(A)] for r in range(R + X)]
    if cfg.get("doses") == "fixed":  # concrete doses (zero, negative, repeated included); names stay symbolic
        cyc = [1.0, 0.0, 2.0, 1.0, -1.0, 0.5]
        td = [[cyc[(r * A + c) % len(cyc)] for c in range(A)] for r in range(R + X)]
    else:
        td = [[ctx.real("ds%d_%d" % (r, c)) for c in range(A)] for r in range(R + X)]
    sn = [ctx.str("sn%d" % r) for r in range(R + X)]
    if cfg.get("plates") == "one":
        p0 = ctx.str("pn0")
        pn = [p0 for r in range(R + X)]
    else:
        pn = [ctx.str("pn%d" % r) for r in range(R + X)]
    ctrl = ctx.str("ctrl")
    kw = {}
    if X:
        big = data.Screen(treatment_names=np.array(tn), treatment_doses=np.array(td, dtype=float),
                          sample_names=np.array(sn), plate_names=np.array(pn), control_treatment_name=ctrl)
        kw = dict(treatment_mapping=big.treatment_mapping, sample_mapping=big.sample_mapping)
    def arr(rows, flag, **k):
        # assembled row by row, or column by column and transposed (a view whose memory order is not its index order)
        if cfg.get("layout") and ctx.is_true(ctx.bool(flag)):
            return np.array([[r[c] for r in rows] for c in range(A)], **k).T
        return np.array(rows, **k)
    s = data.Screen(treatment_names=arr(tn[:R], "tn_T"), treatment_doses=arr(td[:R], "td_T", dtype=float),
                    sample_names=np.array(sn[:R]), plate_names=np.array(pn[:R]), control_treatment_name=ctrl, **kw)
    tids = s.treatment_ids.tolist()
    mn, md, mi = [x.tolist() for x in s.treatment_mapping]
    ctx.observe("tids", tids); ctx.observe("sids", s.sample_ids.tolist()); ctx.observe("pids", s.plate_ids.tolist())
    ctx.observe("tmap", [mn, md, mi])
    ctx.prove(len(tids) == R and all(len(row) == A for row in tids), "treatment_ids has the shape of treatment_names")
    flat_names = [tn[r][c] for r in range(R) for c in range(A)]
    flat_doses = [td[r][c] for r in range(R) for c in range(A)]
    flat_ids = [tids[r][c] for r in range(R) for c in range(A)]
    _check_treatment_encoding(ctx, flat_names, flat_doses, ctrl, flat_ids, mn, md, mi, "screen: ")
    if X:
        b1, b2, b3 = [x.tolist() for x in kw["treatment_mapping"]]
        ctx.prove(len(mn) == len(b1), "screen: supplied treatment mapping kept verbatim (length)")
        for j in range(min(len(mn), len(b1))):
            ctx.prove(ctx.And(mn[j] == b1[j], md[j] == b2[j], mi[j] == b3[j]), "screen: supplied treatment mapping kept verbatim")
    sids = s.sample_ids.tolist()
    smn, smi = [x.tolist() for x in s.sample_mapping]
    _check_1d(ctx, sn[:R], sids, smn, smi, "screen samples: ")
    pids = s.plate_ids.tolist()
    pmn, pmi = [x.tolist() for x in s.plate_mapping]
    _check_1d(ctx, pn[:R], pids, pmn, pmi, "screen plates: ")
    if not X:
        ctx.prove(len(pmn) <= R and len(smn) <= R, "mapping no larger than the data when none was supplied")
    es = data.ExperimentSpace.from_screen(s)
    nt, ns = es.n_unique_treatments, es.n_unique_samples
    ctx.observe("sizes", [nt, ns])
    for v in flat_ids:
        ctx.prove(v < nt, "treatment id strictly below ExperimentSpace.n_unique_treatments")
    for v in sids:
        ctx.prove(v < ns, "sample id strictly below ExperimentSpace.n_unique_samples")
    ctx.prove(ctx.And(s.treatment_space_size == len(mn), s.sample_space_size == len(smn)), "space sizes are the mapping lengths")
    if not X and cfg.get("combine", True):
        # screens put together from screens (Screen.combine / Screen.concat) are screens like any other: same control
        # name, sentinel exactly for control name or dose <= 0, ids decoding through the combined screen's own mapping
        for how, comb in (("combine", s.combine(s)), ("concat", data.Screen.concat([s, s]))):
            ctx.prove(comb.control_treatment_name == ctrl, "%s keeps the control treatment name" % how, key="control name lost by combine / concat")
            cids = comb.treatment_ids.tolist()
            cn, cd, ci = [x.tolist() for x in comb.treatment_mapping]
            ctx.prove(len(cids) == 2 * R, "%s of a screen with itself has twice the rows" % how)
            if len(cids) == 2 * R:
                _check_treatment_encoding(ctx, flat_names + flat_names, flat_doses + flat_doses, ctrl,
                                          [cids[r][c] for r in range(2 * R) for c in range(A)], cn, cd, ci, "%s: " % how)
    return len(mn)


def h_combine(ctx, cfg):
    """Screen.combine / Screen.concat with concrete names (a non-default control name among them, also at a positive dose)"""
    np = ctx.np
    data = ctx.mod("batchie.data")
    n = cfg["n"]
    names = _names(ctx, dict(pool=True), n)
    doses = [ctx.real("ds%d" % i) for i in range(n)]
    ctrl = POOL[int(ctx.int("ctrlk", 3, 4))]
    s = data.Screen(treatment_names=np.array([[x] for x in names], dtype=str), treatment_doses=np.array([[d] for d in doses], dtype=float),
                    sample_names=np.array(["s%d" % (i % 2) for i in range(n)], dtype=str), plate_names=np.array(["p"] * n, dtype=str),
                    control_treatment_name=ctrl)
    for how, comb in (("combine", s.combine(s)), ("concat", data.Screen.concat([s, s]))):
        ctx.prove(comb.control_treatment_name == ctrl, "%s keeps the control treatment name" % how, key="control name lost by combine / concat")
        cids = [r[0] for r in comb.treatment_ids.tolist()]
        cn, cd, ci = [x.tolist() for x in comb.treatment_mapping]
        ctx.prove(len(cids) == 2 * n, "%s of a screen with itself has twice the rows" % how)
        if len(cids) == 2 * n:
            _check_treatment_encoding(ctx, names + names, doses + doses, ctrl, cids, cn, cd, ci, "%s: " % how)
    return n


def h_merge(ctx, cfg):
    """Plate.merge rewrites the parent screen's plate names in place: the screen that results is a screen like any other,
    its plate ids the dense range 0..n-1 with equal ids iff equal plate name, decoding through its plate mapping.
    Plate names are symbolic (any order), the two plates of every merge are chosen by the solver."""
    np = ctx.np
    data = ctx.mod("batchie.data")
    R = cfg["rows"]
    pn = [ctx.str("pn%d" % r) for r in range(R)]
    s = data.Screen(treatment_names=np.array([["t%d" % r] for r in range(R)], dtype=str), treatment_doses=np.array([[1.0]] * R, dtype=float),
                    sample_names=np.array(["s%d" % (r % 2) for r in range(R)], dtype=str), plate_names=np.array(pn),
                    control_treatment_name="ctrl")
    names = list(pn)
    done = 0
    for m in range(cfg["merges"]):
        plates = list(s.plates)
        n = len(plates)
        if n < 2:
            break
        i = int(ctx.int("mg%d_a" % m, 0, n - 1))
        j = int(ctx.int("mg%d_b" % m, 0, n - 1))
        if i == j:
            ctx.assume(False)
        keep, gone = plates[i], plates[j]
        sel = [bool(a) or bool(b) for a, b in zip(keep.selection_vector.tolist(), gone.selection_vector.tolist())]
        kept_name, gone_name = keep.plate_name, gone.plate_name
        keep.merge(gone)
        done += 1
        got_names = s.plate_names.tolist()
        # which of the two names the merged plate carries is not specified: all its rows carry the same one
        first = [r for r in range(R) if sel[r]][0]
        ctx.prove(ctx.Or(got_names[first] == kept_name, got_names[first] == gone_name), "the merged plate carries the name of one of the two plates",
                  key="merge: plate names")
        names = [got_names[first] if sel[r] else names[r] for r in range(R)]
        for r in range(R):
            ctx.prove(got_names[r] == names[r], "after a merge the rows of both plates carry one plate name, all other rows their own",
                      key="merge: plate names")
        pids = s.plate_ids.tolist()
        for r in range(R):
            ctx.prove(ctx.And(pids[r] >= 0, pids[r] < n - 1), "after a merge plate ids lie in 0..n-1 for the n plates that remain",
                      key="merge: plate ids not dense")
            for r2 in range(r):
                ctx.prove(_iff(ctx, names[r] == names[r2], pids[r] == pids[r2]), "after a merge: equal plate ids iff equal plate names",
                          key="merge: plate ids not one per name")
        ctx.prove(len(set(int(x) for x in pids)) == n - 1 and int(s.n_plates) == n - 1,
                  "after a merge the plate ids are exactly 0..n-1 and n_plates counts them", key="merge: plate ids not dense")
        ctx.prove(sorted(int(p.plate_id) for p in s.plates) == list(range(n - 1)), "the plates of the merged screen carry the ids 0..n-1",
                  key="merge: plate ids not dense")
        if cfg.get("mapping", True):
            pmn, pmi = [x.tolist() for x in s.plate_mapping]
            _check_1d(ctx, names, pids, pmn, pmi, "merge: plate mapping: ")
    return done


def h_many(ctx, cfg):
    """three hundred distinct names (ids beyond every narrow integer range), each used once or twice, in a scrambled order:
    ids are dense 0..n-1, equal names get equal ids, the mappings decode every id; one dose symbolic"""
    np = ctx.np
    data = ctx.mod("batchie.data")
    N = cfg["N"]
    base = ["n%03d" % ((i * 7919) % N) for i in range(N)] + ["n%03d" % ((i * 31) % N) for i in range(0, N, 5)]
    ids, mn, mi = data.encode_1d_array_to_0_indexed_ids(np.array(base, dtype=str))
    ids, mn, mi = [int(x) for x in ids.tolist()], mn.tolist(), [int(x) for x in mi.tolist()]
    ctx.prove(sorted(set(ids)) == list(range(N)), "1-d ids are dense 0..n-1 (300 distinct names)", key="ids not dense for many names")
    dec = dict(zip(mi, mn))
    ctx.prove(len(dec) == N and sorted(mi) == list(range(N)) and all(dec[i] == nm for i, nm in zip(ids, base)),
              "every id decodes through the mapping to the row's name (300 distinct names)", key="ids do not decode for many names")
    d0 = ctx.real("ds0", positive=True)
    doses = [1.0] * len(base)
    doses[0] = d0
    tid, tmn, tmd, tmi = data.encode_treatment_arrays_to_0_indexed_ids(np.array(base, dtype=str), np.array(doses, dtype=float), control_treatment_name="ctrl")
    tid = [int(r) for r in tid.tolist()]
    tmn, tmd, tmi = tmn.tolist(), tmd.tolist(), [int(x) for x in tmi.tolist()]
    nd = len(tmi)
    ctx.prove(sorted(set(tid)) == list(range(nd)) and sorted(tmi) == list(range(nd)), "treatment ids are dense 0..n-1 (300 names)",
              key="ids not dense for many names")
    by_id = {i: (nm, ds) for nm, ds, i in zip(tmn, tmd, tmi)}
    ok = True
    for r, (nm, ds) in enumerate(zip(base, doses)):
        ok = ctx.And(ok, by_id[tid[r]][0] == nm, ctx.eq(by_id[tid[r]][1], ds))
    ctx.prove(ok, "every treatment id decodes to the row's (name, dose) (300 names)", key="ids do not decode for many names")
    return nd


def h_badmap(ctx, cfg):
    """a supplied mapping that does not cover the data, or is not dense, must be rejected"""
    np = ctx.np
    data = ctx.mod("batchie.data")
    n = cfg["n"]
    names = [ctx.str("nm%d" % i) for i in range(n)]
    doses = [ctx.real("ds%d" % i) for i in range(n)]
    sn = [ctx.str("sn%d" % i) for i in range(n)]
    ctrl = ctx.str("ctrl")
    tn = np.array([[x] for x in names])
    td = np.array([[x] for x in doses], dtype=float)
    pl = np.array([ctx.str("pn")] * n)
    base = data.Screen(treatment_names=tn, treatment_doses=td, sample_names=np.array(sn), plate_names=pl,
                       control_treatment_name=ctrl)
    mn, md, mi = base.treatment_mapping
    # (1) mapping lacking the last mapping row: rejected iff some data row needs it (always: every row is needed)
    if len(mn.tolist()) >= 1:
        try:
            data.Screen(treatment_names=tn, treatment_doses=td, sample_names=np.array(sn), plate_names=pl,
                        control_treatment_name=ctrl, treatment_mapping=(mn[:-1], md[:-1], mi[:-1]))
            ctx.fail("treatment mapping lacking a data row was accepted")
        except ValueError:
            ctx.prove(True, "treatment mapping lacking a data row is rejected")
    smn, smi = base.sample_mapping
    try:
        data.Screen(treatment_names=tn, treatment_doses=td, sample_names=np.array(sn), plate_names=pl,
                    control_treatment_name=ctrl, sample_mapping=(smn[:-1], smi[:-1]))
        ctx.fail("sample mapping lacking a data row was accepted")
    except ValueError:
        ctx.prove(True, "sample mapping lacking a data row is rejected")
    # (2) non-dense ids: shift every non-control id up by one (a gap at 0) when one exists
    ids = mi.tolist()
    has_nonctrl = any(ctx.is_true(v != -1) for v in ids)
    if has_nonctrl:
        gap = np.array([ctx.ite(v == -1, v, v + 1) for v in ids], dtype=int)
        try:
            data.Screen(treatment_names=tn, treatment_doses=td, sample_names=np.array(sn), plate_names=pl,
                        control_treatment_name=ctrl, treatment_mapping=(mn, md, gap))
            ctx.fail("treatment mapping with non-dense ids was accepted")
        except ValueError:
            ctx.prove(True, "treatment mapping with non-dense ids is rejected")
    sgap = np.array([v + 1 for v in smi.tolist()], dtype=int)
    try:
        data.Screen(treatment_names=tn, treatment_doses=td, sample_names=np.array(sn), plate_names=pl,
                    control_treatment_name=ctrl, sample_mapping=(smn, sgap))
        ctx.fail("sample mapping with non-dense ids was accepted")
    except ValueError:
        ctx.prove(True, "sample mapping with non-dense ids is rejected")
    # (3) each mapping is judged on its own: a bad one is rejected also when the other one is supplied and valid
    for what, kw in (("non-dense sample mapping next to a valid treatment mapping", dict(treatment_mapping=(mn, md, mi), sample_mapping=(smn, sgap))),
                     ("sample mapping lacking a data row next to a valid treatment mapping", dict(treatment_mapping=(mn, md, mi), sample_mapping=(smn[:-1], smi[:-1]))),
                     ("treatment mapping lacking a data row next to a valid sample mapping", dict(treatment_mapping=(mn[:-1], md[:-1], mi[:-1]), sample_mapping=(smn, smi)))):
        if "treatment mapping lacking" in what and len(mn.tolist()) < 1:
            continue
        try:
            data.Screen(treatment_names=tn, treatment_doses=td, sample_names=np.array(sn), plate_names=pl, control_treatment_name=ctrl, **kw)
            ctx.fail("%s was accepted" % what, key="bad mapping accepted next to a valid one")
        except ValueError:
            ctx.prove(True, "a bad mapping is rejected also when the other mapping is supplied and valid")
    if has_nonctrl:
        try:
            data.Screen(treatment_names=tn, treatment_doses=td, sample_names=np.array(sn), plate_names=pl, control_treatment_name=ctrl,
                        treatment_mapping=(mn, md, gap), sample_mapping=(smn, smi))
            ctx.fail("non-dense treatment mapping next to a valid sample mapping was accepted", key="bad mapping accepted next to a valid one")
        except ValueError:
            ctx.prove(True, "a bad mapping is rejected also when the other mapping is supplied and valid")
    # and two valid mappings together are accepted and followed
    both = data.Screen(treatment_names=tn, treatment_doses=td, sample_names=np.array(sn), plate_names=pl, control_treatment_name=ctrl,
                       treatment_mapping=(mn, md, mi), sample_mapping=(smn, smi))
    ctx.prove(both.sample_ids.tolist() == base.sample_ids.tolist() and both.treatment_ids.tolist() == base.treatment_ids.tolist(),
              "two valid supplied mappings are followed")
    return len(ids)


def run(ctx, cfg):
    return {"treat": h_treat, "one_d": h_one_d, "screen": h_screen, "badmap": h_badmap, "many": h_many, "merge": h_merge, "combine": h_combine}[cfg["h"]](ctx, cfg)
