"""Driver: ./check <property> --tier quick|thorough [--replay file]

exit 0  property held on every explored path (or only listed known findings failed)
exit 1  VIOLATION property=<id> replay=<path>   (replay-confirmed on the real code)
exit 2  INCONCLUSIVE property=<id> reason=...   (unknown / model gap / cex not reproducible)
"""
import argparse
import hashlib
import importlib
import json
import multiprocessing as mp
import os
import re
import sys
import time
import traceback

from . import engine as E
from . import loader as loader_mod
from . import symnp
from .ctx import SymCtx, RealCtx, ShimCtx, ConcreteViolation, same, to_py

import logging as _logging
import warnings as _warnings
_logging.getLogger("batchie").setLevel(_logging.CRITICAL + 1)   # logging output is not the subject of any property
_logging.getLogger("nextflow_script").setLevel(_logging.CRITICAL + 1)
_warnings.filterwarnings("ignore")

VERIF = os.path.dirname(os.path.dirname(os.path.abspath(__file__)))
EVIDENCE_DIR = os.path.join(VERIF, "evidence")
REPLAY_DIR = os.path.join(EVIDENCE_DIR, "replays")
KNOWN = os.path.join(VERIF, "known_findings.json")
SPLIT_AFTER = 24
GRACE_S = 180  # a single solver call may overrun the budget by its own timeout; beyond this a task is considered lost

_LOADERS = {}


def get_loader(patches_key=None, patches=None):
    if patches_key not in _LOADERS:
        _LOADERS[patches_key] = loader_mod.Loader(patches=patches)
    return _LOADERS[patches_key]


def harness_module(prop):
    return importlib.import_module("bverif.harness.%s" % prop.lower())


def _violation_record(v, cfg):
    return dict(label=v.label, key=v.key, model={k: E._js(x) for k, x in v.model.items()},
                detail=E._js(v.detail), cfg=cfg, notes=E._js(getattr(v, "notes", [])))


def _task(args):
    prop, cfg, roots, collect, deadline, patches = args
    t0 = time.time()
    out = dict(cfg=cfg, stats=None, labels={}, samples=[], violations=[], reach=0,
               inconclusive=None, leftover=[], sources=[], assumptions=[], draws_sample=None)
    try:
        H = harness_module(prop)
        L = get_loader(json.dumps(patches, sort_keys=True) if patches else None, patches)
        eng = E.Engine(deadline=deadline, timeout_ms=getattr(H, "SOLVER_TIMEOUT_MS", 20000),
                       prove_timeout_ms=getattr(H, "PROVE_TIMEOUT_MS", 60000))
        eng.numeric_first = getattr(H, "NUMERIC_FIRST", 0)
        eng.fast_real = getattr(H, "FAST_REAL", False)
        eng.xcheck_limit = 3 if os.environ.get("BVERIF_XCHECK") else 0
        assumptions = set()

        def fn(e):
            ctx = SymCtx(e, L)
            try:
                r = H.run(ctx, cfg)
            except Exception as ex:
                where = _raised_in_repo(ex)
                if where is None or getattr(H, "EXCEPTIONS_ARE_VIOLATIONS", True) is False:
                    raise
                e.latched = None
                e.fail("unexpected %s raised by the code under test" % type(ex).__name__,
                       key="unexpected %s at %s" % (type(ex).__name__, where), detail=str(ex)[:200])
            e.reachable()
            for a in e.assumptions:
                assumptions.add(a)
            return r
        try:
            out["leftover"] = eng.explore(fn, roots=roots, collect_pending=collect)
        except E.Inconclusive as inc:
            out["inconclusive"] = "%s: %s" % (type(inc).__name__, inc.reason)
        if eng.latched is not None and isinstance(eng.latched, E.Inconclusive) and not out["inconclusive"]:
            out["inconclusive"] = "%s: %s" % (type(eng.latched).__name__, eng.latched.reason)
        out["stats"] = eng.stats
        out["labels"] = eng.labels
        out["samples"] = eng.samples
        out["reach"] = eng.reach
        out["violations"] = [_violation_record(v, cfg) for v in eng.violations[:50]]
        out["sources"] = L.functions_encoded()
        out["xcheck"] = eng.xcheck
        out["assumptions"] = sorted(assumptions)
    except E.Inconclusive as inc:
        out["inconclusive"] = "%s: %s" % (type(inc).__name__, inc.reason)
    except Exception as ex:  # harness or model bug: never a pass
        out["inconclusive"] = "harness error: %s\n%s" % (ex, traceback.format_exc()[-1500:])
    out["wall_s"] = time.time() - t0
    return out


def _raised_in_repo(ex):
    """module:function of the innermost /repo frame if the exception was raised by /repo code, or by a library
    model on behalf of a library call made from /repo code (the replay on the real libraries decides whether
    the real library raises too); None if it comes from the harness itself"""
    if _signature_mismatch_with_stub(ex) or _attribute_gap_of_stub(ex):
        return None
    tb = ex.__traceback__
    frames = []
    while tb is not None:
        frames.append(tb.tb_frame)
        tb = tb.tb_next
    if not frames:
        return None
    models = ("bverif/symnp.py", "bverif/symlibs.py", "bverif/engine.py")
    i = len(frames) - 1
    while i >= 0 and frames[i].f_code.co_filename.endswith(models):
        i -= 1
    if i < 0:
        return None
    fn = frames[i].f_code.co_filename
    if fn.startswith(loader_mod.REPO + "/"):
        return "%s:%s" % (os.path.relpath(fn, loader_mod.REPO), frames[i].f_code.co_name)
    return None


_SIG = re.compile(r"^(?P<q>[\w.<>]+)\(\) (takes |got an unexpected keyword argument|got multiple values for|missing \d+ required)")


def _attribute_gap_of_stub(ex):
    """AttributeError on an object whose class is defined by a harness (a stand-in for a plate, a posterior sample, a distance
    matrix ...): the code under test used more of the real interface than the stand-in offers.  A gap of the stand-in -
    never a finding (the replay uses the same stand-in and would 'confirm' it): harness error, i.e. inconclusive."""
    if not isinstance(ex, AttributeError):
        return False
    obj = getattr(ex, "obj", None)
    if obj is None:
        return False
    cls = obj if isinstance(obj, type) else type(obj)
    return (getattr(cls, "__module__", "") or "").startswith("bverif.harness")


def _signature_mismatch_with_stub(ex):
    """TypeError('X.f() takes ... / got an unexpected keyword ...') where X.f is a stand-in defined by this framework (a
    harness stub or a filesystem / library model used in replay mode as well): the code under test called a library
    function with more of its real signature than the stand-in offers.  That is a gap of the stand-in - never a finding;
    the replay would 'confirm' it because it uses the same stand-in."""
    if not isinstance(ex, TypeError):
        return False
    m = _SIG.match(str(ex))
    if not m:
        return False
    head = m.group("q").split(".")[0]
    for name, mod in list(sys.modules.items()):
        if name.startswith("bverif") and mod is not None and hasattr(mod, head):
            return True
    return False


def merge_stats(a, b):
    if a is None:
        return dict(b)
    for k, v in b.items():
        a[k] = a.get(k, 0) + v
    return a


def replay_real(H, cfg, model, want_key=None):
    """re-run the scenario on the unmodified real code; returns (reproduced, label, key, detail)"""
    ctx = RealCtx(model)

    def pick():
        for lab, key, det in ctx.failed:
            if key == want_key:
                return True, lab, key, det
        lab, key, det = ctx.failed[-1]
        return True, lab, key, det
    try:
        H.run(ctx, cfg)
        if ctx.failed:
            return pick()
        return False, None, None, None
    except ConcreteViolation as cv:
        return pick()
    except E.PathAbort:
        return False, None, None, "assumption not met by the model values"
    except Exception as ex:
        where = _raised_in_repo(ex)
        if where is None:
            raise
        return True, "unexpected %s raised by the code under test" % type(ex).__name__, \
            "unexpected %s at %s" % (type(ex).__name__, where), str(ex)[:200]
    finally:
        ctx.cleanup()


def KNOWN_KEYS(H):
    return {k["key"] for k in load_known() if k.get("property") == getattr(H, "PROPERTY", None)}


def validate_models(H, cfgs, L, report):
    """run fixtures through modelled-library code and real code; observations must agree"""
    n = 0
    fx = getattr(H, "fixtures", None)
    if fx is None:
        return 0, None
    for cfg in cfgs:
        for values in fx(cfg):
            obs = []
            for Ctx, args in ((ShimCtx, (values, L)), (RealCtx, (values,))):
                ctx = Ctx(*args)
                outcome = "ok"
                try:
                    H.run(ctx, cfg)
                    if ctx.failed:
                        outcome = "violation:" + ctx.failed[0][0]
                except ConcreteViolation as cv:
                    outcome = "violation:" + cv.label
                except E.PathAbort:
                    outcome = "abort"
                except E.Inconclusive as inc:
                    outcome = "inconclusive:" + str(inc.reason)
                except Exception as ex:
                    outcome = "raise:" + type(ex).__name__
                finally:
                    ctx.cleanup()
                if Ctx is RealCtx:
                    real_key = ctx.failed[0][1] if ctx.failed else None
                obs.append((outcome, [(l, to_py(v)) for l, v in ctx.observations]))
            n += 1
            (o1, a), (o2, b) = obs
            if o2.startswith("violation:"):
                # the REAL code violates the property on this concrete fixture (whatever the modelled run says - floating-point
                # effects are invisible to the solver's real arithmetic and may differ between numpy and the model):
                # a replay-confirmed violation in its own right
                lab = o2[len("violation:"):]
                # a listed known finding keeps its own key (and is then printed as KNOWN-FINDING, once)
                fkey = real_key if real_key in KNOWN_KEYS(H) else "fixture: " + lab
                report.append(dict(label=lab, key=fkey, cfg=cfg,
                                   model={k: E._js(v) for k, v in values.items()}, detail="violated by the real code on a concrete fixture input", confirmed=True, notes=[]))
                continue
            if getattr(H, "VALIDATE_OUTCOME", True) is False and o1.startswith("violation:") and o2.startswith("violation:"):
                o1 = o2
            if o1 != o2 or len(a) != len(b) or not all(x[0] == y[0] and same(x[1], y[1]) for x, y in zip(a, b)):
                first = next((i for i, (x, y) in enumerate(zip(a, b)) if x[0] != y[0] or not same(x[1], y[1])), None)
                return n, "model validation mismatch cfg=%s values=%s: shim=%s real=%s first_diff=%s" % (
                    cfg, str(values)[:200], o1, o2,
                    (a[first], b[first]) if first is not None else (len(a), len(b)))
    return n, None


def _validate_task(args):
    """model validation of one configuration (worker process)"""
    prop, cfg = args
    rep = []
    try:
        n, err = validate_models(harness_module(prop), [cfg], get_loader(None, None), rep)
    except Exception as ex:
        n, err = 0, "model validation crashed: %s\n%s" % (ex, traceback.format_exc()[-1200:])
    return n, err, rep


def _cvc5_one(item):
    import subprocess
    import tempfile
    label, txt = item
    with tempfile.NamedTemporaryFile("w", suffix=".smt2", delete=False) as f:
        f.write(txt)
    try:
        p = subprocess.run(["cvc5", "--tlimit=20000", f.name], capture_output=True, text=True, timeout=40)
        out = (p.stdout or "").strip().splitlines()
        ans = out[0].strip() if out else "error"
        if "(error" in (p.stdout or "") or "(error" in (p.stderr or ""):
            ans = "error"
    except Exception:
        ans = "timeout"
    finally:
        os.unlink(f.name)
    return label, ans


def second_opinion(dumps, jobs):
    """z3 said unsat for each of these queries; cvc5 1.0.3 re-decides them.  sat from cvc5 is a disagreement
    (=> inconclusive); unknown / timeout / error are counted and change nothing."""
    from concurrent.futures import ThreadPoolExecutor
    t = time.time()
    with ThreadPoolExecutor(max(1, min(jobs, 16))) as ex:
        res = list(ex.map(_cvc5_one, dumps))
    counts = {}
    bad = []
    for label, ans in res:
        counts[ans] = counts.get(ans, 0) + 1
        if ans == "sat":
            bad.append("second solver (cvc5) says sat where z3 said unsat: obligation '%s'" % label)
    return dict(solver="cvc5 1.0.3", queries=len(res), answers=counts, wall_s=round(time.time() - t, 1), disagreements=bad)


def load_known():
    if not os.path.exists(KNOWN):
        return []
    return json.load(open(KNOWN)).get("findings", [])


def main(argv=None):
    try:  # kill -USR1 <pid> prints every thread's Python stack (parent and workers): diagnosing a stuck run
        import faulthandler
        import signal
        faulthandler.register(signal.SIGUSR1, all_threads=True)
    except Exception:
        pass
    ap = argparse.ArgumentParser()
    ap.add_argument("property")
    ap.add_argument("--tier", default=os.environ.get("VERIF_TIER", "quick"), choices=["quick", "thorough"])
    ap.add_argument("--replay")
    ap.add_argument("--jobs", type=int, default=int(os.environ.get("BVERIF_JOBS", "0")) or os.cpu_count() or 4)
    ap.add_argument("--mutant", help="self-test: json file with {module: [[old,new],...]} applied in memory")
    ap.add_argument("--no-evidence", action="store_true")
    ap.add_argument("--only", help="run only configs whose name contains this text")
    ap.add_argument("-v", "--verbose", action="store_true")
    args = ap.parse_args(argv)
    prop = args.property.upper()
    seed = int(os.environ.get("VERIF_SEED", "0"))
    H = harness_module(prop)

    if args.replay:
        rec = json.load(open(args.replay))
        ok, lab, key, det = replay_real(H, rec["cfg"], rec["model"])
        print("replay %s: %s %s" % (args.replay, "REPRODUCED" if ok else "not reproduced", lab or ""))
        if det:
            print("  detail:", det)
        return 1 if ok else 0

    t0 = time.time()
    budget = getattr(H, "BUDGET_S", {"quick": 150, "thorough": 1500})[args.tier]
    deadline = t0 + budget
    if args.mutant and not os.path.exists(args.mutant):
        from .selftest import mutants as _cat
        from .selftest.util import module_of
        _m = next(x for x in _cat.M if x["id"] == args.mutant)
        patches = {module_of(_m["file"]): [[_m["old"], _m["new"]]]}
    else:
        patches = json.load(open(args.mutant)) if args.mutant else None
    if patches:
        patches = {k: [tuple(x) for x in v] for k, v in patches.items()}
    cfgs = H.configs(args.tier, seed)
    if args.only:
        cfgs = [c for c in cfgs if args.only in c.get("name", "")]
    inconclusive = []
    results = []

    # ---- model validation (modelled libraries vs real libraries on concrete inputs)
    L0 = get_loader(json.dumps(patches, sort_keys=True) if patches else None, patches)
    nvalid, err = (0, None)
    fixture_violations = []
    if not patches:
        if len(cfgs) > 8 and args.jobs > 1:
            with mp.get_context("fork").Pool(max(1, args.jobs)) as vpool:
                it = vpool.imap(_validate_task, [(prop, c) for c in cfgs], chunksize=1)
                for _ in cfgs:
                    try:
                        n1, e1, rep1 = it.next(timeout=max(5.0, deadline - time.time()))
                    except mp.TimeoutError:
                        err = err or "model validation did not finish within the time budget (worker lost or stuck)"
                        vpool.terminate()
                        break
                    nvalid += n1
                    err = err or e1
                    fixture_violations.extend(rep1)
        else:
            try:
                nvalid, err = validate_models(H, cfgs, L0, fixture_violations)
            except Exception as ex:
                err = "model validation crashed: %s\n%s" % (ex, traceback.format_exc()[-1200:])
    if err:
        inconclusive.append(err)
    if fixture_violations and not patches:
        known_keys = KNOWN_KEYS(H)
        if any(v["key"] not in known_keys for v in fixture_violations):
            # the real code already violates the property on a concrete fixture: that verdict stands.  The solver paths get
            # one more minute (they often add a more telling input); code that violates a property can also make the
            # exploration arbitrarily expensive, and a violation must not wait for that
            deadline = min(deadline, time.time() + 60)

    # ---- symbolic exploration, two phases (split large path trees over the pool)
    ctxmp = mp.get_context("fork")
    jobs = max(1, args.jobs)
    quota = getattr(H, "TASK_QUOTA", 40)
    with ctxmp.Pool(jobs) as pool:
        outstanding = []
        queue = [(prop, cfg, None, cfg.get("split_after", SPLIT_AFTER), deadline, patches) for cfg in cfgs]
        while queue or outstanding:
            while queue and len(outstanding) < 3 * jobs:
                outstanding.append(pool.apply_async(_task, (queue.pop(0),)))
            still = []
            progressed = False
            for ar in outstanding:
                if ar.ready():
                    progressed = True
                    r = ar.get()
                    results.append(r)
                    lo = r.get("leftover") or []
                    # dynamic work sharing: every unexplored subtree becomes a task of its own
                    # (deepest first: they are the smallest), each again bounded by the quota
                    for pre in lo:
                        queue.append((prop, r["cfg"], [pre], quota, deadline, patches))
                else:
                    still.append(ar)
            outstanding = still
            if not progressed:
                time.sleep(0.01)
            # a worker that died (e.g. killed for memory) loses its task and the pool never reports it: never wait for ever
            if outstanding and time.time() > deadline + GRACE_S:
                inconclusive.append("%d task(s) not finished %d s after the time budget (worker lost or stuck): no verdict for them"
                                    % (len(outstanding) + len(queue), GRACE_S))
                pool.terminate()
                break

    # ---- extra sub-checks (direct solver lemmas, cross-checks)
    extra = {}
    loader_mod.CURRENT_PATCHES = patches
    if hasattr(H, "extra"):
        try:
            extra = H.extra(args.tier, seed, deadline) or {}
        except E.Inconclusive as inc:
            inconclusive.append("extra: %s" % inc.reason)
        except Exception as ex:
            inconclusive.append("extra crashed: %s\n%s" % (ex, traceback.format_exc()[-1200:]))
    for msg in extra.get("inconclusive", []):
        inconclusive.append(msg)

    stats = None
    labels = {}
    samples = []
    sources = {}
    assumptions = set(getattr(H, "ASSUMPTIONS", []))
    per_cfg = {}
    raw_violations = list(extra.get("violations", [])) + (fixture_violations if not patches else [])
    xdumps = []
    for r in results:
        xdumps.extend(r.get("xcheck") or [])
        if r["inconclusive"]:
            inconclusive.append("cfg %s: %s" % (r["cfg"].get("name"), r["inconclusive"]))
        if r["stats"]:
            stats = merge_stats(stats, r["stats"])
            pc = per_cfg.setdefault(r["cfg"].get("name", "?"), dict(paths=0, obligations=0, reach=0, nontrivial=0))
            pc["paths"] += r["stats"]["paths"]
            pc["obligations"] += r["stats"]["obligations"]
            pc["nontrivial"] += r["stats"]["nontrivial_paths"]
            pc["reach"] += r["reach"]
        for k, (n, d) in r["labels"].items():
            a = labels.setdefault(k, [0, 0])
            a[0] += n
            a[1] += d
        if len(samples) < 3:
            samples.extend(r["samples"][:3 - len(samples)])
        for s in r["sources"]:
            sources[s["module"]] = s
        assumptions.update(r["assumptions"])
        raw_violations.extend(r["violations"])
    stats = stats or dict(paths=0, obligations=0, discharged=0, queries=0, solver_s=0.0, nontrivial_paths=0,
                          aborted=0, forks=0, sat=0, unsat=0, unknown=0, violations=0)
    for k, v in extra.get("stats", {}).items():
        stats[k] = stats.get(k, 0) + v
    for k, (n, d) in extra.get("labels", {}).items():
        a = labels.setdefault(k, [0, 0])
        a[0] += n
        a[1] += d
    samples.extend(extra.get("samples", [])[:2])

    if args.verbose:
        by = {}
        for r in results:
            b = by.setdefault(r["cfg"].get("name"), [0, 0.0, 0])
            b[0] += r["stats"]["paths"] if r["stats"] else 0
            b[1] += r["wall_s"]
            b[2] += r["stats"]["queries"] if r["stats"] else 0
        for k, b in by.items():
            print("  cfg %-40s paths=%-7d cpu=%.1fs queries=%d" % (k, b[0], b[1], b[2]))

    # ---- second opinion (thorough tier): a sample of the discharged obligations is re-decided by cvc5
    second = None
    if os.environ.get("BVERIF_XCHECK") and xdumps:
        second = second_opinion(xdumps[:60], jobs)
        for msg in second.pop("disagreements"):
            inconclusive.append(msg)

    # ---- vacuity guards
    for name, pc in per_cfg.items():
        if pc["paths"] == 0 or pc["reach"] == 0:
            inconclusive.append("vacuous: cfg %s completed no feasible path (assumptions contradictory?)" % name)
        elif pc["obligations"] == 0:
            inconclusive.append("vacuous: cfg %s discharged no obligation" % name)

    # ---- replay every counterexample on the real code, classify
    known = [k for k in load_known() if k.get("property") == prop]
    confirmed, known_hit = [], {}
    seen_keys = set()
    for v in raw_violations:
        if v["key"] in seen_keys:
            continue
        if v.get("confirmed"):  # produced and already replayed by an extra() sub-check
            ok, lab, key, det = True, v["label"], v["key"], v.get("detail")
        else:
            if patches:
                ok, lab, key, det = True, v["label"], v["key"], v["detail"]  # mutants exist only in memory
            else:
                try:
                    ok, lab, key, det = replay_real(H, v["cfg"], v["model"], v["key"])
                except Exception as ex:
                    ok, lab, key, det = False, None, None, "replay crashed: %r" % (ex,)
        if not ok:
            inconclusive.insert(0, "counterexample for '%s' (cfg %s) did not reproduce on the real code: %s model=%s" % (
                v["label"], v["cfg"].get("name"), det, str(v["model"])[:300]))
            continue
        seen_keys.add(v["key"])
        v = dict(v, label=lab or v["label"], key=key or v["key"], detail=det if det is not None else v["detail"])
        hit = next((k for k in known if k["key"] == v["key"]), None)
        if hit:
            known_hit[v["key"]] = hit
        else:
            confirmed.append(v)

    wall = time.time() - t0
    level = getattr(H, "LEVEL", "model_checking")
    coverage = dict(
        evaluations=int(stats["paths"]) + int(extra.get("evaluations", 0)),
        distinct_nontrivial=int(stats["nontrivial_paths"]) + int(extra.get("distinct_nontrivial", 0)),
        rule=("each evaluation is one feasible path (distinct decision prefix) through the encoded functions, "
              "found by solver-driven forking; non-trivial = the path discharged at least one proof obligation. "
              + getattr(H, "RULE", "")),
        samples=samples or [{"note": "no completed path"}],
        obligations=int(stats["obligations"]), discharged=int(stats["discharged"]),
        queries=int(stats["queries"]), solver_s=round(stats["solver_s"], 3),
        solver_answers=dict(sat=int(stats["sat"]), unsat=int(stats["unsat"]), unknown=int(stats["unknown"])),
        forks=int(stats["forks"]), infeasible_paths=int(stats["aborted"]),
        obligations_by_label={k: dict(total=v[0], discharged=v[1]) for k, v in sorted(labels.items())},
        configurations={k: v for k, v in per_cfg.items()},
        functions_encoded=getattr(H, "FUNCTIONS", []),
        sources=list(sources.values()),
        bounds=getattr(H, "BOUNDS", {}).get(args.tier, ""),
        outside_claim=getattr(H, "OUTSIDE", []),
        model_validation_cases=nvalid,
        traces_validated_against_impl=nvalid + len(seen_keys),
        exhaustive=not inconclusive,
        known_findings=[dict(key=k, what=h["what"]) for k, h in known_hit.items()],
        inconclusive=inconclusive[:10],
        second_opinion=second,
        engine="bverif (z3 %s), solver-decided path exploration of /repo source" % ".".join(map(str, __import__("z3").get_version())),
    )
    coverage.update(extra.get("coverage", {}))
    ev = dict(property_id=prop, tier=args.tier, seed=seed, level=level, coverage=coverage,
              assumptions=sorted(assumptions), wall_s=round(wall, 2), violations=len(confirmed))
    if not args.no_evidence and not patches:
        os.makedirs(EVIDENCE_DIR, exist_ok=True)
        with open(os.path.join(EVIDENCE_DIR, "%s.json" % prop), "w") as f:
            json.dump(ev, f, indent=1, default=str)

    print("%s tier=%s paths=%d obligations=%d/%d queries=%d solver=%.1fs wall=%.1fs cfgs=%d" % (
        prop, args.tier, stats["paths"], stats["discharged"], stats["obligations"], stats["queries"],
        stats["solver_s"], wall, len(cfgs)))
    for k, h in known_hit.items():
        print("KNOWN-FINDING: property=%s %s [%s]" % (prop, h["what"], k))
    rc = 0
    if confirmed:
        # runs that do not write evidence (seeded-change trials, self-tests) keep their replay files out of evidence/
        rdir = os.path.join(VERIF, ".scratch", "replays") if args.no_evidence else REPLAY_DIR
        os.makedirs(rdir, exist_ok=True)
        for v in confirmed:
            hid = hashlib.sha256((v["key"] + json.dumps(v["model"], sort_keys=True)).encode()).hexdigest()[:10]
            path = os.path.join(rdir, "%s-%s.json" % (prop, hid))
            if not patches:
                with open(path, "w") as f:
                    json.dump(v, f, indent=1, default=str)
            print("VIOLATION property=%s replay=%s" % (prop, path))
            print("  what: %s | key: %s | detail: %s" % (v["label"], v["key"], str(v["detail"])[:300]))
        rc = 1
    if inconclusive and rc == 0:
        for msg in inconclusive[:5]:
            print("INCONCLUSIVE property=%s reason=%s" % (prop, msg.replace("\n", " | ")[:600]))
        rc = 2
    return rc


if __name__ == "__main__":
    sys.exit(main())
