"""Numeric evaluation of z3 terms with true transcendental functions (witness search fallback)."""
import math, random, z3
from fractions import Fraction

def _logit(x):
    if x <= 0 or x >= 1:
        return math.nan
    return math.log(x / (1 - x))


def _f32(x):
    import struct
    return struct.unpack("f", struct.pack("f", x))[0]


FUNCS = {"LOG": lambda x: math.log(x) if x > 0 else (-math.inf if x == 0 else math.nan),
         "EXP": lambda x: math.exp(x) if x < 700 else math.inf,
         "EXPIT": lambda x: 1.0 / (1.0 + math.exp(-x)) if x > -700 else 0.0,
         "SQRT": lambda x: math.sqrt(x) if x >= 0 else math.nan,
         "LOGIT": _logit, "F32": _f32}

def _close(a, b):
    if isinstance(a, float) or isinstance(b, float):
        if isinstance(a, bool) or isinstance(b, bool):
            return a == b
        if math.isnan(a) or math.isnan(b):
            return False
        if math.isinf(a) or math.isinf(b):
            return a == b
        return abs(a - b) <= 1e-9 + 1e-7 * max(abs(a), abs(b))
    return a == b


def evaluate(e, env, cache=None):
    if cache is None: cache = {}
    key = e.get_id()
    if key in cache: return cache[key]
    k = e.decl().kind()
    ch = e.children()
    if z3.is_rational_value(e):
        r = float(Fraction(e.numerator_as_long(), e.denominator_as_long()))
    elif z3.is_int_value(e):
        r = e.as_long()
    elif z3.is_true(e): r = True
    elif z3.is_false(e): r = False
    elif z3.is_const(e) and k == z3.Z3_OP_UNINTERPRETED:
        r = env[e.decl().name()]
    else:
        a = [evaluate(c, env, cache) for c in ch] if k != z3.Z3_OP_ITE else None
        if k == z3.Z3_OP_ADD: r = sum(a)
        elif k == z3.Z3_OP_MUL:
            r = 1
            for x in a: r = r * x
        elif k == z3.Z3_OP_SUB: r = a[0] - sum(a[1:])
        elif k == z3.Z3_OP_UMINUS: r = -a[0]
        elif k == z3.Z3_OP_DIV: r = a[0] / a[1] if a[1] != 0 else math.nan
        elif k == z3.Z3_OP_IDIV: r = a[0] // a[1] if a[1] > 0 else -(a[0] // -a[1]) if a[1] < 0 else 0
        elif k == z3.Z3_OP_MOD: r = a[0] % abs(a[1]) if a[1] != 0 else 0
        elif k == z3.Z3_OP_TO_REAL: r = float(a[0])
        elif k == z3.Z3_OP_POWER: r = a[0] ** a[1]
        elif k == z3.Z3_OP_ITE:
            c = evaluate(ch[0], env, cache)
            r = evaluate(ch[1] if c else ch[2], env, cache)
        elif k == z3.Z3_OP_EQ: r = _close(a[0], a[1])
        elif k == z3.Z3_OP_DISTINCT: r = len(set(a)) == len(a)
        elif k == z3.Z3_OP_LE: r = a[0] <= a[1]
        elif k == z3.Z3_OP_LT: r = a[0] < a[1]
        elif k == z3.Z3_OP_GE: r = a[0] >= a[1]
        elif k == z3.Z3_OP_GT: r = a[0] > a[1]
        elif k == z3.Z3_OP_AND: r = all(a)
        elif k == z3.Z3_OP_OR: r = any(a)
        elif k == z3.Z3_OP_NOT: r = not a[0]
        elif k == z3.Z3_OP_IMPLIES: r = (not a[0]) or a[1]
        elif k == z3.Z3_OP_UNINTERPRETED: r = FUNCS[e.decl().name()](*a)
        else: raise NotImplementedError(e.decl())
    cache[key] = r
    return r

def free_vars(es):
    seen, out = set(), {}
    def walk(e):
        if e.get_id() in seen: return
        seen.add(e.get_id())
        if z3.is_const(e) and e.decl().kind() == z3.Z3_OP_UNINTERPRETED:
            out[e.decl().name()] = e.sort()
        for c in e.children(): walk(c)
    for e in es: walk(e)
    return out
