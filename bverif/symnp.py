"""Model of the numpy API that batchie uses (DESIGN.md section 3.3).

Arrays are a shared Python list (the buffer) + a flat list of positions into it
(C order) + a concrete shape + a dtype tag.  Basic indexing yields views that
alias the buffer; advanced (integer / boolean array) indexing copies, exactly
as numpy does.  Elements are Python values or symbolic scalars from
bverif.engine.  Operations whose result *shape* depends on symbolic values
(boolean masks, unique, sorting) fork on the comparisons numpy would make;
everything else is merged into ite-terms.
"""
import builtins
import itertools
import math
import struct
import types

import z3
builtins_range = range

from . import engine as E
from .engine import SymInt, SymReal, SymBool, SymStr, ModelGap, is_sym, ite, lift

_bsum, _bmax, _bmin, _ball, _bany, _babs = (builtins.sum, builtins.max, builtins.min,
                                            builtins.all, builtins.any, builtins.abs)

newaxis = None
nan = float("nan")
inf = float("inf")
F32_EXACT = False  # when True a cast to float32 is visible as the uninterpreted F32()


# --------------------------------------------------------------------------- dtypes
class DType:
    def __init__(self, code, width=None):
        self.code = code
        self.width = width  # fixed item width of a unicode / bytes array of concrete strings (None: unknown)

    @property
    def kind(self):
        return {"f8": "f", "f4": "f", "i8": "i", "b": "b", "U": "U", "S": "S", "O": "O"}[self.code]

    def __eq__(self, o):
        try:
            return self.code == _dt(o)
        except TypeError:
            return False

    def __ne__(self, o):
        return not self.__eq__(o)

    def __hash__(self):
        return hash(self.code)

    def __repr__(self):
        return "dtype(%s)" % self.code

    def __call__(self, v=0):
        return _cast(v, self.code)


float64 = DType("f8")
float32 = DType("f4")
int64 = DType("i8")
int_ = int64
# narrow integer types: values wrap when they are cast to the type (astype / array(dtype=) / zeros(dtype=)); the array
# itself is then handled as an integer array (arithmetic performed *in* a narrow type does not wrap: outside the model)
uint8, uint16, uint32 = DType("i8", ("u", 8)), DType("i8", ("u", 16)), DType("i8", ("u", 32))
int8, int16, int32 = DType("i8", ("i", 8)), DType("i8", ("i", 16)), DType("i8", ("i", 32))
uint64 = DType("i8", ("u", 64))
intc, uintc, short, ushort, ubyte, byte = int32, uint32, int16, uint16, uint8, int8


def min_scalar_type(a):
    """the smallest integer type that holds the (concrete) integer a"""
    a = _unbox(a)
    if isinstance(a, bool) or not isinstance(a, int):
        raise ModelGap("np.min_scalar_type of %r" % (type(a).__name__,))
    if a >= 0:
        return uint8 if a < 2 ** 8 else uint16 if a < 2 ** 16 else uint32 if a < 2 ** 32 else uint64
    return int8 if a >= -2 ** 7 else int16 if a >= -2 ** 15 else int32 if a >= -2 ** 31 else int64


def _wrap_int(v, width):
    """C conversion of an integer to a narrower type: modulo 2^bits"""
    kind, bits = width
    if isinstance(v, (bool, SymBool)) or not isinstance(v, (int, SymInt)):
        return v
    m = 1 << bits
    if kind == "u":
        return v % m
    return (v + (m >> 1)) % m - (m >> 1)


def _narrow(dt):
    return dt.width if isinstance(dt, DType) and isinstance(dt.width, tuple) else None
intp = int64
bool_ = DType("b")
str_ = DType("U")
bytes_ = DType("S")
object_ = DType("O")
floating = "floating"
integer = "integer"
number = "number"


def _dt(dt):
    if isinstance(dt, DType):
        return dt.code
    if dt is float or dt in ("f8", "float64", "float"):
        return "f8"
    if dt in ("f4", "float32"):
        return "f4"
    if dt is int or dt in ("i8", "int64", "int"):
        return "i8"
    if dt is bool or dt in ("b", "bool"):
        return "b"
    if dt is str or dt in ("U",):
        return "U"
    if dt is bytes or dt in ("S",):
        return "S"
    if dt is object or dt in ("O",):
        return "O"
    raise TypeError("unsupported dtype %r" % (dt,))


def issubdtype(dt, t):
    code = _dt(dt)
    if t == "floating":
        return code in ("f8", "f4")
    if t == "integer":
        return code == "i8"
    if t == "number":
        return code in ("f8", "f4", "i8")
    return code == _dt(t)  # np.issubdtype(float32, float) is False, (int64, int) True, (bool_, int) False


class I64(int):
    dtype = int64
    shape = ()
    ndim = 0
    size = 1

    def item(self):
        return int(self)


class F64(float):
    dtype = float64
    shape = ()
    ndim = 0
    size = 1

    def item(self):
        return float(self)


def _box(v):
    if type(v) is int:
        return I64(v)
    if type(v) is float:
        return F64(v)
    return v


def _unbox(v):
    if type(v) is I64:
        return int(v)
    if type(v) is F64:
        return float(v)
    return v


def _f32(x):
    if isinstance(x, float):
        if x != x or x in (inf, -inf):
            return x
        return struct.unpack("f", struct.pack("f", x))[0]
    return x


def _cast(v, dt):
    """value conversion on assignment / astype"""
    v = _unbox(v)
    if dt in ("f8", "f4"):
        if isinstance(v, bool):
            v = 1.0 if v else 0.0
        elif isinstance(v, int):
            v = float(v)
        elif isinstance(v, SymBool):
            v = ite(v, 1.0, 0.0)
        elif isinstance(v, SymInt):
            v = SymReal(z3.ToReal(v.e))
        elif isinstance(v, str):
            raise ValueError("could not convert string to float")
        if dt == "f4" and F32_EXACT:
            if isinstance(v, SymReal):
                return SymReal(E.F32(v.e))
            return _f32(v)
        return v
    if dt == "i8":
        if isinstance(v, bool):
            return int(v)
        if isinstance(v, SymBool):
            return ite(v, 1, 0)
        if isinstance(v, float):
            if v != v:
                raise ValueError("cannot convert float NaN to integer")
            return int(v)
        if isinstance(v, SymReal):
            raise ModelGap("cast of a symbolic real to int")
        return v
    if dt == "b":
        if isinstance(v, (bool, SymBool)):
            return v
        if isinstance(v, str):
            return len(v) > 0
        return v != 0
    if dt == "U":
        if isinstance(v, str):
            return v
        if isinstance(v, bytes):
            return v.decode()
        if is_sym(v):
            raise ModelGap("str() of a symbolic number")
        return str(v)
    return v


def _infer_dt(vals):
    has_f = has_i = has_b = has_s = has_o = False
    for v in vals:
        if isinstance(v, (float, SymReal)):
            has_f = True
        elif isinstance(v, (bool, SymBool)):
            has_b = True
        elif isinstance(v, (int, SymInt)):
            has_i = True
        elif isinstance(v, str):
            has_s = True
        elif isinstance(v, bytes):
            return "S"
        else:
            has_o = True
    if has_o:
        return "O"
    if has_s:
        if has_f or has_i or has_b:
            raise ModelGap("mixed string/number array")
        return "U"
    if has_f:
        return "f8"
    if has_i:
        return "i8"
    if has_b:
        return "b"
    return "f8"


def _promote(dts, scalars=()):
    """result dtype of arithmetic between arrays of dtypes dts and python scalars"""
    order = {"b": 0, "i8": 1, "f4": 2, "f8": 3}
    if _bany(d not in order for d in dts):
        if _ball(d == dts[0] for d in dts):
            return dts[0]
        return "O"
    best = _bmax(dts, key=lambda d: order[d]) if dts else "b"
    for s in scalars:
        if isinstance(s, (float, SymReal)) and order[best] < 2:
            best = "f8"
        elif isinstance(s, (int, SymInt)) and not isinstance(s, bool) and order[best] < 1:
            best = "i8"
    return best


def prod_(xs):
    r = 1
    for x in xs:
        r *= x
    return r


def _unravel(shape):
    return list(itertools.product(*[range(s) for s in shape]))


def _isnan1(x):
    return isinstance(x, float) and x != x


# --------------------------------------------------------------------------- ndarray
class ndarray:
    __array_priority__ = 100

    def __init__(self, buf, idx, shape, dtype, uw=None):
        self.buf = buf
        self.idx = idx
        self.shape = tuple(int(s) for s in shape)
        self._dt = dtype
        self.uw = uw

    @staticmethod
    def fresh(vals, shape, dtype):
        vals = list(vals)
        shape = tuple(shape)
        if len(vals) != prod_(shape):
            raise ValueError("cannot build array of shape %s from %d values" % (shape, len(vals)))
        return ndarray(vals, list(range(len(vals))), shape, dtype, _width_of(vals) if dtype in ("U", "S") else None)

    @property
    def dtype(self):
        return DType(self._dt, self.uw)

    @property
    def flat(self):
        b = self.buf
        return [b[i] for i in self.idx]

    @property
    def size(self):
        return prod_(self.shape)

    @property
    def ndim(self):
        return len(self.shape)

    def __len__(self):
        if not self.shape:
            raise TypeError("len() of unsized object")
        return self.shape[0]

    def copy(self):
        r = ndarray.fresh(self.flat, self.shape, self._dt)
        r.uw = self.uw
        return r

    def astype(self, dt, copy=True):
        d = _dt(dt)
        if not copy and d == self._dt and not _narrow(dt) and not (isinstance(dt, DType) and dt.width not in (None, self.uw)):
            return self  # numpy returns the very same array: callers that write into it write into the original
        vals = [_cast(v, d) for v in self.flat]
        if _narrow(dt):
            vals = [_wrap_int(v, dt.width) for v in vals]
        w = dt.width if isinstance(dt, DType) and d in ("U", "S") else None
        if w is not None:
            # numpy's fixed-width unicode: longer (concrete) strings are silently truncated
            vals = [_trunc(v, w) for v in vals]
        r = ndarray.fresh(vals, self.shape, d)
        if w is not None:
            r.uw = w
        return r

    def view(self):
        return ndarray(self.buf, list(self.idx), self.shape, self._dt, self.uw)

    def tolist(self):
        def rec(vals, shape):
            if not shape:
                return _unbox(vals[0])
            step = prod_(shape[1:])
            return [rec(vals[i * step:(i + 1) * step], shape[1:]) for i in range(shape[0])]
        return rec(self.flat, self.shape)

    def item(self):
        if self.size != 1:
            raise ValueError("can only convert an array of size 1 to a Python scalar")
        return _unbox(self.flat[0])

    def _strides(self):
        st, acc = [], 1
        for s in reversed(self.shape):
            st.append(acc)
            acc *= s
        return list(reversed(st))

    # ------------------------------------------------------------- indexing
    def _normalize_key(self, key):
        if isinstance(key, list):
            key = (array(key),)
        elif not isinstance(key, tuple):
            key = (key,)
        key = list(key)
        out = []
        for k in key:
            if isinstance(k, (list, range)):
                k = array(list(k))
            if isinstance(k, ndarray) and k.ndim == 0:
                k = k.item()
            out.append(k)
        key = out
        # expand boolean arrays into integer arrays (forks on symbolic mask bits)
        out = []
        for k in key:
            if isinstance(k, ndarray) and k._dt == "b":
                nz = nonzero(k)
                out.extend(nz)
            else:
                out.append(k)
        key = out
        if _bany(k is Ellipsis for k in key):
            i = [j for j, k in enumerate(key) if k is Ellipsis][0]
            n_real = _bsum(1 for k in key if k is not None and k is not Ellipsis)
            key[i:i + 1] = [slice(None)] * (self.ndim - n_real)
        n_real = _bsum(1 for k in key if k is not None)
        if n_real > self.ndim:
            raise IndexError("too many indices for array")
        key = key + [slice(None)] * (self.ndim - n_real)
        return key

    def _gather(self, key):
        """-> (list of per-element position specs, out_shape, is_view)"""
        key = self._normalize_key(key)
        adv = [k for k in key if isinstance(k, ndarray)]
        adv_shape = _bshape([a.shape for a in adv]) if adv else None
        dims = []
        d = 0
        for k in key:
            if k is None:
                dims.append(("n",))
                continue
            n = self.shape[d]
            if isinstance(k, slice):
                dims.append(("s", list(range(*k.indices(n)))))
            elif isinstance(k, ndarray):
                if k._dt not in ("i8",):
                    if k.size == 0:
                        k = k.astype(int)
                    else:
                        raise IndexError("arrays used as indices must be of integer (or boolean) type")
                dims.append(("a", broadcast_to(k, adv_shape).flat, n))
            elif isinstance(k, (bool, SymBool)):
                raise ModelGap("scalar boolean index")
            elif isinstance(k, (int, SymInt)):
                dims.append(("i", k, n))
            else:
                raise IndexError("unsupported index %r" % (type(k),))
            d += 1
        kinds = [x[0] for x in dims]
        ai = [i for i, k in enumerate(kinds) if k == "a"]
        adv_first = False
        if ai and _bany(kinds[j] in ("s", "n") for j in range(ai[0], ai[-1] + 1)):
            adv_first = True
        if ai and "i" in kinds and _bany(kinds[j] in ("s", "n") for j in range(_bmin(ai[0], kinds.index("i")), _bmax(ai[-1], len(kinds) - 1 - kinds[::-1].index("i")) + 1)):
            # an integer scalar index acts as an advanced index when arrays are present
            adv_first = True
        out_shape = []
        placed = False
        if adv_first:
            out_shape.extend(adv_shape)
            placed = True
        for x in dims:
            if x[0] == "n":
                out_shape.append(1)
            elif x[0] == "s":
                out_shape.append(len(x[1]))
            elif x[0] == "a" and not placed:
                out_shape.extend(adv_shape)
                placed = True
        out_shape = tuple(out_shape)
        nadv = len(adv_shape) if adv else 0
        elems = []
        for pos in _unravel(out_shape):
            spec = []
            if adv_first:
                apos = pos[:nadv]
                pi = nadv
            else:
                apos = None
                pi = 0
            for x in dims:
                if x[0] == "n":
                    pi += 1
                elif x[0] == "s":
                    spec.append(x[1][pos[pi]])
                    pi += 1
                elif x[0] == "a":
                    if apos is None:
                        apos = pos[pi:pi + nadv]
                        pi += nadv
                    fi = 0
                    for p, s in zip(apos, adv_shape):
                        fi = fi * s + p
                    spec.append(("dyn", x[1][fi], x[2]))
                else:
                    spec.append(("dyn", x[1], x[2]))
            elems.append(spec)
        return elems, out_shape, not adv

    def _locate(self, spec):
        """spec -> list of (cond, offset into self.idx); cond True for concrete"""
        st = self._strides()
        alts = [(True, 0)]
        for dimi, sp in enumerate(spec):
            if isinstance(sp, tuple):
                _, v, n = sp
                if isinstance(v, SymInt):
                    ve = z3.simplify(v.e)
                    if z3.is_int_value(ve):
                        v = ve.as_long()
                    else:
                        if not E.cur().branch(z3.And(ve >= -n, ve < n)):
                            raise IndexError("index out of bounds (symbolic)")
                        new = []
                        for c, off in alts:
                            for j in range(n):
                                cj = z3.Or(ve == j, ve == j - n)
                                new.append((cj if c is True else z3.And(c, cj), off + j * st[dimi]))
                        alts = new
                        continue
                v = int(v)
                if v < -n or v >= n:
                    raise IndexError("index %d is out of bounds for axis %d with size %d" % (v, dimi, n))
                if v < 0:
                    v += n
                alts = [(c, off + v * st[dimi]) for c, off in alts]
            else:
                alts = [(c, off + sp * st[dimi]) for c, off in alts]
        return alts

    def __getitem__(self, key):
        elems, shape, is_view = self._gather(key)
        located = [self._locate(spec) for spec in elems]
        if is_view and _ball(len(a) == 1 for a in located):
            r = ndarray(self.buf, [self.idx[a[0][1]] for a in located], shape, self._dt, self.uw)
        else:
            vals = []
            for alts in located:
                v = self.buf[self.idx[alts[-1][1]]]
                for c, off in reversed(alts[:-1]):
                    v = ite(SymBool(c) if c is not True else True, self.buf[self.idx[off]], v)
                vals.append(v)
            r = ndarray.fresh(vals, shape, self._dt)
            if self.uw is not None:
                r.uw = self.uw
        if shape == ():
            return _box(r.flat[0])
        return r

    def __setitem__(self, key, value):
        elems, shape, _ = self._gather(key)
        if isinstance(value, ndarray):
            if value.shape != shape:
                # numpy allows assigning size-n array into n selected slots when broadcastable
                value = broadcast_to(_squeeze_leading(value, len(shape)), shape)
            vals = value.flat
        elif isinstance(value, (list, tuple)):
            vals = broadcast_to(array(value), shape).flat
        else:
            vals = [value] * len(elems)
        for spec, v in zip(elems, vals):
            alts = self._locate(spec)
            cv = _cast(v, self._dt)
            if self.uw is not None and self._dt in ("U", "S"):
                cv = _trunc(cv, self.uw)
            if len(alts) == 1:
                self.buf[self.idx[alts[0][1]]] = cv
            else:
                for c, off in alts:
                    p = self.idx[off]
                    self.buf[p] = ite(SymBool(c), cv, self.buf[p])

    def __iter__(self):
        if not self.shape:
            raise TypeError("iteration over a 0-d array")
        for i in range(self.shape[0]):
            yield self[i]

    def __contains__(self, x):
        return bool(any_(self == x))

    def __bool__(self):
        if self.size != 1:
            raise ValueError("The truth value of an array with more than one element is ambiguous")
        return bool(self.flat[0])

    def __index__(self):
        if self.size == 1 and self._dt == "i8":
            v = self.flat[0]
            return v.__index__()
        raise TypeError("only integer scalar arrays can be converted to a scalar index")

    # ----------------------------------------------------------- arithmetic
    def _bin(self, o, f, dt=None):
        return _ufunc2(self, o, f, dt)

    def __add__(self, o): return self._bin(o, _add)
    def __radd__(self, o): return self._bin(o, lambda a, b: _add(b, a))
    def __sub__(self, o): return self._bin(o, _sub)
    def __rsub__(self, o): return self._bin(o, lambda a, b: _sub(b, a))
    def __mul__(self, o): return self._bin(o, _mul)
    def __rmul__(self, o): return self._bin(o, lambda a, b: _mul(b, a))
    def __truediv__(self, o): return self._bin(o, _div, "div")
    def __rtruediv__(self, o): return self._bin(o, lambda a, b: _div(b, a), "div")
    def __floordiv__(self, o): return self._bin(o, lambda a, b: a // b)
    def __mod__(self, o): return self._bin(o, lambda a, b: a % b)
    def __neg__(self): return _ufunc1(self, lambda a: -a)
    def __abs__(self): return _ufunc1(self, lambda a: abs(a))

    def __pow__(self, p):
        if p == 2:
            return _ufunc1(self, lambda a: _mul(a, a))
        if p == 1:
            return self.copy()
        if isinstance(p, int) and not isinstance(p, bool) and 0 <= p <= 16:
            def power(a, _p=p):
                r = 1
                for _ in builtins_range(_p):
                    r = _mul(r, a)
                return r
            return _ufunc1(self, power)
        raise ModelGap("array power %r" % (p,))

    def __rpow__(self, base):
        # base ** array: concrete non-negative integer exponents only
        def power(e, _b=base):
            e = _unbox(e)
            if not isinstance(e, int) or isinstance(e, bool) or e < 0 or e > 64:
                raise ModelGap("power with exponent %r" % (e,))
            r = 1
            for _ in builtins_range(e):
                r = _mul(r, _b)
            return r
        return _ufunc1(self, power)

    def __lt__(self, o): return self._bin(o, lambda a, b: a < b, "b")
    def __le__(self, o): return self._bin(o, lambda a, b: a <= b, "b")
    def __gt__(self, o): return self._bin(o, lambda a, b: a > b, "b")
    def __ge__(self, o): return self._bin(o, lambda a, b: a >= b, "b")
    def __eq__(self, o): return self._bin(o, _eq, "b")
    def __ne__(self, o): return self._bin(o, lambda a, b: _not(_eq(a, b)), "b")
    def __and__(self, o): return self._bin(o, _and)
    def __rand__(self, o): return self._bin(o, _and)
    def __or__(self, o): return self._bin(o, _or)
    def __ror__(self, o): return self._bin(o, _or)
    def __invert__(self):
        if self._dt != "b":
            raise ModelGap("bitwise invert of non-bool array")
        return _ufunc1(self, _not)
    __hash__ = None

    def _inplace(self, r):
        rv = broadcast_to(r, self.shape).flat
        for p, v in zip(self.idx, rv):
            self.buf[p] = _cast(v, self._dt)
        return self

    def __iadd__(self, o): return self._inplace(self + o)
    def __isub__(self, o): return self._inplace(self - o)
    def __imul__(self, o): return self._inplace(self * o)
    def __itruediv__(self, o): return self._inplace(self / o)
    def __ior__(self, o): return self._inplace(self | o)
    def __iand__(self, o): return self._inplace(self & o)

    def __matmul__(self, o): return matmul(self, o)
    def __rmatmul__(self, o): return matmul(o, self)

    @property
    def T(self):
        if self.ndim < 2:
            return self
        if self.ndim != 2:
            raise ModelGap("transpose of ndim>2")
        n, m = self.shape
        idx = [self.idx[i * m + j] for j in range(m) for i in range(n)]
        out = ndarray(self.buf, idx, (m, n), self._dt, self.uw)
        # the transpose is a view of the same memory: its memory order is the other one ("K" / "A" orders can see that)
        out._memF = not getattr(self, "_memF", False)
        return out

    def transpose(self):
        return self.T

    def reshape(self, *shape):
        if len(shape) == 1 and isinstance(shape[0], (tuple, list)):
            shape = tuple(shape[0])
        shape = list(shape)
        if -1 in shape:
            i = shape.index(-1)
            rest = prod_(s for j, s in enumerate(shape) if j != i)
            shape[i] = self.size // rest if rest else 0
        if prod_(shape) != self.size:
            raise ValueError("cannot reshape array of size %d into shape %s" % (self.size, tuple(shape)))
        return ndarray(self.buf, self.idx, tuple(shape), self._dt, self.uw)

    def _in_order(self, order):
        if order in (None, "C") or self.ndim < 2:
            return None
        if order not in ("F", "K", "A"):
            raise ValueError("order must be one of 'C', 'F', 'A', or 'K'")
        if self.ndim != 2:
            raise ModelGap("ravel / flatten order=%r of ndim>2" % (order,))
        if order != "F" and not getattr(self, "_memF", False):
            return None
        n, m = self.shape
        flat = self.flat
        return [flat[i * m + j] for j in builtins_range(m) for i in builtins_range(n)]

    def flatten(self, order="C"):
        vals = self._in_order(order)
        return ndarray.fresh(self.flat if vals is None else vals, (self.size,), self._dt)

    def ravel(self, order="C"):
        vals = self._in_order(order)
        if vals is None:
            return self.reshape(-1)
        return ndarray.fresh(vals, (self.size,), self._dt)

    def sum(self, axis=None, **kw): return sum_(self, axis, **kw)
    def mean(self, axis=None, **kw): return mean(self, axis, **kw)
    def all(self, axis=None): return all_(self, axis)
    def any(self, axis=None): return any_(self, axis)
    def argmin(self): return argmin(self)
    def argmax(self): return argmax(self)
    def min(self, axis=None, initial=None, keepdims=False): return min_(self, axis, initial=initial, keepdims=keepdims)
    def max(self, axis=None, initial=None, keepdims=False): return max_(self, axis, initial=initial, keepdims=keepdims)
    def cumsum(self, axis=None): return cumsum(self, axis)
    def prod(self, axis=None): return prod(self, axis)
    def nonzero(self): return nonzero(self)
    def argsort(self, axis=-1, kind=None, order=None): return argsort(self, axis=axis, kind=kind, order=order)
    def round(self, decimals=0): raise ModelGap("ndarray.round")
    def squeeze(self): return self.reshape(tuple(d for d in self.shape if d != 1))
    def fill(self, v): self[...] = v
    def dot(self, o): return matmul(self, o)
    def repeat(self, n): return repeat(self, n)
    def take(self, idx, axis=None): return self[idx] if axis in (None, 0) else self[:, idx]
    def var(self, axis=None): return var(self, axis)
    def std(self, axis=None): return std(self, axis)

    def __repr__(self):
        return "symarray(shape=%s, dtype=%s)" % (self.shape, self._dt)


def _width_of(vals):
    """item width numpy would choose for these strings (None when a symbolic name is present: lengths unknown)"""
    w = 1
    for v in vals:
        if isinstance(v, SymStr) or not isinstance(v, (str, bytes)):
            return None
        w = _bmax(w, len(v))
    return w


def _trunc(v, w):
    if isinstance(v, (str, bytes)) and not isinstance(v, SymStr) and len(v) > w:
        return v[:w]
    return v


def _squeeze_leading(a, nd):
    while a.ndim > nd and a.shape[0] == 1:
        a = a.reshape(a.shape[1:])
    return a


# --------------------------------------------------------------------------- scalar kernels
def _sp(x):
    return isinstance(x, float) and (x != x or x in (inf, -inf))


def _add(a, b):
    a, b = _unbox(a), _unbox(b)
    if _sp(a) and is_sym(b):
        return a
    if isinstance(a, SymBool) and isinstance(b, (bool, SymBool)):
        return a._int() + (int(b) if isinstance(b, bool) else b._int())
    if isinstance(a, bool) and isinstance(b, SymBool):
        return int(a) + b._int()
    return a + b


def _sub(a, b):
    a, b = _unbox(a), _unbox(b)
    if _sp(a) and is_sym(b):
        return a
    return a - b


def _mul(a, b):
    a, b = _unbox(a), _unbox(b)
    if isinstance(a, bool):
        a, b = b, a
    if isinstance(b, bool) and not isinstance(a, (bool, SymBool)):
        if isinstance(a, (float, SymReal)):
            return a if b else (nan if _isnan1(a) else 0.0)
        return a if b else 0
    if isinstance(a, SymBool) and not isinstance(b, SymBool):
        a, b = b, a
    if isinstance(b, SymBool) and not isinstance(a, (bool, SymBool)):
        if isinstance(a, (float, SymReal)):
            if _sp(a):
                raise ModelGap("symbolic mask times non-finite")
            return ite(b, a, 0.0)
        return ite(b, a, 0)
    if isinstance(a, (bool, SymBool)) and isinstance(b, (bool, SymBool)):
        return _and(a, b)
    if _sp(a) or _sp(b):
        if _isnan1(a) or _isnan1(b):
            return nan
        if is_sym(a) or is_sym(b):
            raise ModelGap("infinity times symbolic value")
    if isinstance(a, float) and not _sp(a) and is_sym(b):
        if a == 0.0:
            return 0.0
        if a == 1.0 and isinstance(b, SymReal):
            return b
    if isinstance(b, float) and not _sp(b) and is_sym(a):
        if b == 0.0:
            return 0.0
        if b == 1.0 and isinstance(a, SymReal):
            return a
    return a * b


def _div(a, b):
    a, b = _unbox(a), _unbox(b)
    if not is_sym(a) and not is_sym(b):
        a, b = float(a), float(b)
        if b == 0.0:
            if a != a or a == 0.0:
                return nan
            return inf if (a > 0) == (math.copysign(1.0, b) > 0) else -inf
        return a / b
    if isinstance(a, (bool, SymBool)):
        a = _cast(a, "f8")
    if isinstance(b, (bool, SymBool)):
        b = _cast(b, "f8")
    if isinstance(a, int):
        a = float(a)
    return a / b


def _eq(a, b):
    a, b = _unbox(a), _unbox(b)
    if isinstance(a, str) != isinstance(b, str):
        return False
    if _isnan1(a) or _isnan1(b):
        return False
    r = a == b
    if r is NotImplemented:
        return False
    return r


def _not(a):
    if isinstance(a, bool):
        return not a
    if isinstance(a, SymBool):
        return ~a
    raise ModelGap("logical not of %r" % type(a))


def _and(a, b):
    if isinstance(a, bool):
        return b if a else False
    if isinstance(b, bool):
        return a if b else False
    return a & b


def _or(a, b):
    if isinstance(a, bool):
        return True if a else b
    if isinstance(b, bool):
        return True if b else a
    return a | b


def _bshape(shapes):
    nd = _bmax(len(s) for s in shapes)
    out = []
    for i in range(nd):
        dims = [s[len(s) - nd + i] if len(s) - nd + i >= 0 else 1 for s in shapes]
        nz = [d for d in dims if d != 1]
        if not nz:
            out.append(1)
            continue
        if _bany(d != nz[0] for d in nz):
            raise ValueError("operands could not be broadcast together with shapes %s" % (shapes,))
        out.append(nz[0])
    return tuple(out)


def broadcast_to(a, shape):
    if not isinstance(a, ndarray):
        a = array(a)
    shape = tuple(shape)
    if a.shape == shape:
        return a
    nd = len(shape)
    if a.ndim > nd:
        raise ValueError("cannot broadcast shape %s to %s" % (a.shape, shape))
    ashape = (1,) * (nd - a.ndim) + a.shape
    for s, t in zip(ashape, shape):
        if s != 1 and s != t:
            raise ValueError("could not broadcast input array from shape %s into shape %s" % (a.shape, shape))
    st, acc = [], 1
    for s in reversed(ashape):
        st.append(acc)
        acc *= s
    st = list(reversed(st))
    idx = []
    for pos in _unravel(shape):
        off = _bsum((p if s != 1 else 0) * t for p, s, t in zip(pos, ashape, st))
        idx.append(a.idx[off])
    return ndarray(a.buf, idx, shape, a._dt, a.uw)


def _as(a):
    if isinstance(a, ndarray):
        return a
    if hasattr(a, "to_numpy"):
        return a.to_numpy()
    return array(a)


def _ufunc2(a, b, f, dt=None):
    scal = []
    arrs = []
    for x in (a, b):
        if isinstance(x, ndarray) and x.ndim > 0:
            arrs.append(x._dt)
        elif isinstance(x, ndarray):
            scal.append(x.flat[0])
        elif isinstance(x, (list, tuple)):
            arrs.append(_as(x)._dt)
        else:
            scal.append(x)
    if not isinstance(a, ndarray):
        a = array(a)
    if not isinstance(b, ndarray):
        b = array(b)
    shape = _bshape([a.shape, b.shape])
    av = broadcast_to(a, shape).flat
    bv = broadcast_to(b, shape).flat
    vals = [f(x, y) for x, y in zip(av, bv)]
    if dt == "div":
        p = _promote(arrs, scal)
        dt = p if p in ("f4", "f8") else "f8"
    elif dt is None:
        dt = _promote(arrs, scal)
    return ndarray.fresh(vals, shape, dt)


def _ufunc1(a, f, dt=None):
    if not isinstance(a, ndarray):
        return f(_unbox(a))
    return ndarray.fresh([f(x) for x in a.flat], a.shape, dt or a._dt)


# --------------------------------------------------------------------------- construction
def array(obj, dtype=None, copy=True):
    if isinstance(obj, ndarray):
        if dtype is None or (_dt(dtype) == obj._dt and not _narrow(dtype)):
            return obj.copy() if copy else obj
        return obj.astype(dtype)
    if isinstance(obj, (list, tuple, range)) or isinstance(obj, types.GeneratorType):
        obj = list(obj)
        if len(obj) and _bany(isinstance(o, (list, tuple, ndarray)) for o in obj):
            subs = [(array(o, dtype=dtype) if dtype is not None and _dt(dtype) == "O" and not isinstance(o, ndarray) else _as(o)) for o in obj]
            if _bany(s.shape != subs[0].shape for s in subs):
                raise ValueError("setting an array element with a sequence: inhomogeneous shape")
            shape = (len(subs),) + subs[0].shape
            vals = [v for s in subs for v in s.flat]
            dts = [s._dt for s in subs]
            dt0 = _promote(dts) if _ball(d in ("b", "i8", "f4", "f8") for d in dts) else dts[0]
        else:
            vals = [_unbox(v) for v in obj]
            shape = (len(vals),)
            dt0 = (_infer_dt(vals) if vals else "f8") if dtype is None else None
        d = _dt(dtype) if dtype is not None else dt0
        vals = [_cast(v, d) for v in vals]
        if _narrow(dtype):
            vals = [_wrap_int(v, dtype.width) for v in vals]
        return ndarray.fresh(vals, shape, d)
    obj = _unbox(obj)
    d = _dt(dtype) if dtype is not None else _infer_dt([obj])
    v = _cast(obj, d)
    return ndarray.fresh([_wrap_int(v, dtype.width) if _narrow(dtype) else v], (), d)


def asarray(obj, dtype=None):
    if isinstance(obj, ndarray) and (dtype is None or (_dt(dtype) == obj._dt and not _narrow(dtype))):
        return obj  # no copy: aliasing is observable
    return array(obj, dtype=dtype)


def flatnonzero(a):
    return nonzero(_as(a).reshape(-1))[0]


def argwhere(a):
    nz = nonzero(_as(a))
    n = len(nz[0].flat) if nz else 0
    return ndarray.fresh([nz[d].flat[i] for i in range(n) for d in range(len(nz))], (n, len(nz)), "i8")


def _shape(shape):
    if isinstance(shape, (int, SymInt)):
        return (int(shape),)
    return tuple(int(s) for s in shape)


_ZERO = {"f8": 0.0, "f4": 0.0, "i8": 0, "b": False, "U": "", "O": 0, "S": b""}
_ONE = {"f8": 1.0, "f4": 1.0, "i8": 1, "b": True, "U": "1", "O": 1}


def zeros(shape, dtype=float):
    shape = _shape(shape)
    dt = _dt(dtype)
    return ndarray.fresh([_ZERO[dt]] * prod_(shape), shape, dt)


def ones(shape, dtype=float):
    shape = _shape(shape)
    dt = _dt(dtype)
    return ndarray.fresh([_ONE[dt]] * prod_(shape), shape, dt)


_EMPTY_CALLS = [0]


def empty(shape, dtype=float):
    """uninitialised memory: every cell holds an arbitrary value.  On the solver paths a fresh unknown per cell, with
    concrete values a garbage pattern that changes from call to call (never the zeros a fresh heap page happens to hold)."""
    shape = _shape(shape)
    dt = _dt(dtype)
    n = prod_(shape)
    _EMPTY_CALLS[0] += 1
    k = _EMPTY_CALLS[0]
    if dt in ("f8", "f4"):
        if E.CUR is not None:
            return ndarray.fresh([E.CUR.fresh_real("uninit") for _ in builtins_range(n)], shape, dt)
        return ndarray.fresh([((i * 7919 + k * 104729) % 1009) / 100.0 for i in builtins_range(n)], shape, dt)
    if dt == "i8":
        if E.CUR is not None:
            return ndarray.fresh([E.CUR.fresh_int("uninit") for _ in builtins_range(n)], shape, dt)
        return ndarray.fresh([1000003 * k + i for i in builtins_range(n)], shape, dt)
    return zeros(shape, dtype)


def empty_like(a, dtype=None):
    a = asarray(a)
    return empty(a.shape, dtype if dtype is not None else a.dtype)


def full(shape, v, dtype=None):
    shape = _shape(shape)
    dt = _dt(dtype) if dtype is not None else _infer_dt([v])
    return ndarray.fresh([_cast(v, dt)] * prod_(shape), shape, dt)


def ones_like(a, dtype=None):
    return ones(a.shape, dtype if dtype is not None else a.dtype)


def zeros_like(a, dtype=None):
    return zeros(a.shape, dtype if dtype is not None else a.dtype)


def arange(*args):
    args = [int(a) for a in args]
    r = list(range(*args))
    return ndarray.fresh(r, (len(r),), "i8")


def pad(a, pad_width, mode="constant", constant_values=0, **kw):
    a = asarray(a)
    if mode != "constant" or kw:
        raise ModelGap("np.pad mode=%r" % (mode,))
    nd = a.ndim
    if isinstance(pad_width, (int, SymInt)):
        pw = [(int(pad_width), int(pad_width))] * nd
    else:
        pw = list(pad_width)
        if len(pw) == 2 and all(isinstance(x, (int, SymInt)) for x in pw):
            pw = [(int(pw[0]), int(pw[1]))] * nd
        elif len(pw) == 1 and nd > 1:
            pw = [tuple(int(x) for x in pw[0])] * nd
        else:
            pw = [(int(x[0]), int(x[1])) if not isinstance(x, (int, SymInt)) else (int(x), int(x)) for x in pw]
    if isinstance(constant_values, (list, tuple, ndarray)):
        raise ModelGap("np.pad with per-axis constant_values")
    shape = tuple(a.shape[d] + pw[d][0] + pw[d][1] for d in builtins_range(nd))
    fill = _cast(constant_values, a._dt)
    src = list(a.flat)
    strides = []
    acc = 1
    for d in reversed(builtins_range(nd)):
        strides.insert(0, acc)
        acc *= a.shape[d]
    out = []
    idx = [0] * nd
    total = prod_(shape)
    for flat in builtins_range(total):
        rem = flat
        inside = True
        off = 0
        for d in builtins_range(nd):
            step = prod_(shape[d + 1:]) if d + 1 < nd else 1
            i = rem // step
            rem = rem % step
            j = i - pw[d][0]
            if j < 0 or j >= a.shape[d]:
                inside = False
                break
            off += j * strides[d]
        out.append(src[off] if inside else fill)
    return ndarray.fresh(out, shape, a._dt)


def vdot(a, b):
    a, b = asarray(a), asarray(b)
    return (a.reshape(-1) * b.reshape(-1)).sum()


def size(a, axis=None):
    a = asarray(a)
    return a.size if axis is None else a.shape[axis]


def tril_indices(n, k=0, m=None):
    n = int(n)
    m = n if m is None else int(m)
    k = int(k)
    rc = [(i, j) for i in builtins_range(n) for j in builtins_range(m) if j - i <= k]
    return (ndarray.fresh([i for i, _ in rc], (len(rc),), "i8"), ndarray.fresh([j for _, j in rc], (len(rc),), "i8"))


def triu_indices(n, k=0, m=None):
    n = int(n)
    m = n if m is None else int(m)
    k = int(k)
    rc = [(i, j) for i in builtins_range(n) for j in builtins_range(m) if j - i >= k]
    return (ndarray.fresh([i for i, _ in rc], (len(rc),), "i8"), ndarray.fresh([j for _, j in rc], (len(rc),), "i8"))


def repeat(v, repeats):
    if isinstance(v, ndarray):
        if v.ndim == 0:
            v = v.item()
        else:
            vals = [x for x in v.flat for _ in range(int(repeats))]
            return ndarray.fresh(vals, (len(vals),), v._dt)
    repeats = int(repeats)
    return ndarray.fresh([_unbox(v)] * repeats, (repeats,), _infer_dt([_unbox(v)]))


def diag_indices(n):
    r = ndarray.fresh(list(range(n)), (n,), "i8")
    return (r, r.copy())


# --------------------------------------------------------------------------- reductions
def _reduce(a, axis, f, init, dt=None, keepdims=False):
    a = _as(a)
    if axis is None:
        r = init
        for v in a.flat:
            r = f(r, v)
        if keepdims:
            return ndarray.fresh([r], (1,) * a.ndim, dt or a._dt)
        return _box(r)
    if axis < 0:
        axis += a.ndim
    out_shape = a.shape[:axis] + a.shape[axis + 1:]
    st = a._strides()
    flat = a.flat
    vals = []
    for pos in _unravel(out_shape):
        base = _bsum(p * s for p, s in zip(pos[:axis], st[:axis])) + _bsum(p * s for p, s in zip(pos[axis:], st[axis + 1:]))
        r = init
        for j in range(a.shape[axis]):
            r = f(r, flat[base + j * st[axis]])
        vals.append(r)
    if keepdims:
        out_shape = a.shape[:axis] + (1,) + a.shape[axis + 1:]
    out = ndarray.fresh(vals, out_shape, dt or a._dt)
    return out if out_shape else _box(vals[0])


def _addv(r, v):
    v = _unbox(v)
    if isinstance(v, bool):
        v = int(v)
    elif isinstance(v, SymBool):
        v = v._int()
    if r is None:
        return v
    return _add(r, v)


def sum_(a, axis=None, keepdims=False, dtype=None, where=None):
    a = _as(a)
    if where is not None:
        wv = broadcast_to(_as(where), a.shape).flat
        a = ndarray.fresh([ite(w, v, 0.0 if a._dt in ("f8", "f4") else 0) for v, w in zip(a.flat, wv)], a.shape, a._dt)
    init = 0.0 if a._dt in ("f8", "f4") else 0
    return _reduce(a, axis, _addv, init, "i8" if a._dt == "b" else None, keepdims)


sum = sum_


def count_nonzero(a):
    a = _as(a)
    if a._dt == "b":
        return sum_(a)
    return sum_(a != 0)


def mean(a, axis=None, keepdims=False):
    a = _as(a)
    n = a.size if axis is None else a.shape[axis]
    s = sum_(a, axis, keepdims=keepdims)
    if n == 0:
        return nan
    if isinstance(s, ndarray):
        return s / float(n)
    return _box(_div(s, float(n)))


def var(a, axis=None, ddof=0):
    a = _as(a)
    if axis is not None:
        raise ModelGap("var with axis")
    m = mean(a)
    if ddof:
        return sum_((a - m) ** 2) / (a.size - ddof)
    return mean((a - m) ** 2)


def std(a, axis=None, ddof=0):
    return sqrt(var(a, axis, ddof))


def _allf(r, v):
    return _and(r, _cast(v, "b"))


def _anyf(r, v):
    return _or(r, _cast(v, "b"))


def all_(a, axis=None):
    return _reduce(_as(a), axis, _allf, True, "b")


def any_(a, axis=None):
    return _reduce(_as(a), axis, _anyf, False, "b")


all = all_
any = any_


def _maxf(r, v):
    v = _unbox(v)
    if r is None:
        return v
    if not is_sym(r) and not is_sym(v):
        return v if v > r else r
    return ite(v > r, v, r)


def _minf(r, v):
    v = _unbox(v)
    if r is None:
        return v
    if not is_sym(r) and not is_sym(v):
        return v if v < r else r
    return ite(v < r, v, r)


def _ext(a, axis, f, initial, keepdims, name, where=None):
    a = _as(a)
    if where is not None:
        if initial is None:
            raise ValueError("reduction operation '%s' does not have an identity, so to use a where mask one has to specify 'initial'" % name)
        wv = broadcast_to(_as(where), a.shape).flat
        a = ndarray.fresh([ite(w, v, _unbox(initial)) for v, w in zip(a.flat, wv)], a.shape, a._dt)
    n = a.size if axis is None else a.shape[axis]
    if n == 0 and initial is None:
        raise ValueError("zero-size array to reduction operation %s which has no identity" % name)
    return _reduce(a, axis, f, _unbox(initial) if initial is not None else None, keepdims=keepdims)


def max_(a, axis=None, initial=None, keepdims=False, where=None):
    return _ext(a, axis, _maxf, initial, keepdims, "maximum", where)


def min_(a, axis=None, initial=None, keepdims=False, where=None):
    return _ext(a, axis, _minf, initial, keepdims, "minimum", where)


max = max_
min = min_
amax = max_
amin = min_


def _argext(a, better):
    a = _as(a)
    flat = a.flat
    if not flat:
        raise ValueError("attempt to get argmin/argmax of an empty sequence")
    best_i, best_v = 0, _unbox(flat[0])
    for i, v in enumerate(flat[1:], 1):
        v = _unbox(v)
        c = better(v, best_v)
        best_i = ite(c, i, best_i)
        best_v = ite(c, v, best_v)
    return _box(best_i)


def argmin(a):
    return _argext(a, lambda v, b: v < b)


def argmax(a):
    return _argext(a, lambda v, b: v > b)


def cumsum(a, axis=None):
    a = _as(a)
    if axis is not None and a.ndim > 1:
        raise ModelGap("cumsum with axis on ndim>1")
    out, acc = [], None
    for v in a.flat:
        acc = _addv(acc, v)
        out.append(acc)
    return ndarray.fresh(out, (len(out),), "i8" if a._dt == "b" else a._dt)


def cumprod(a):
    a = _as(a)
    out, acc = [], None
    for v in a.flat:
        acc = v if acc is None else _mul(acc, v)
        out.append(acc)
    return ndarray.fresh(out, (len(out),), a._dt)


def prod(a, axis=None):
    a = _as(a)
    one = 1.0 if a._dt in ("f8", "f4") else 1
    return _reduce(a, axis, lambda r, v: _mul(r, v), one)


product = prod


# --------------------------------------------------------------------------- elementwise math
def square(a):
    return _ufunc1(a, lambda x: _mul(x, x))


def _uf(fn, concrete, special=None):
    def one(x):
        x = _unbox(x)
        if is_sym(x):
            if isinstance(x, (SymInt, SymBool)):
                x = _cast(x, "f8")
            return SymReal(fn(x.e))
        return concrete(float(x))
    return one


def _clog(x):
    if x != x:
        return nan
    if x == 0.0:
        return -inf
    if x < 0:
        return nan
    if x == 1.0:
        return 0.0
    if x == inf:
        return inf
    return SymReal(E.LOG(lift(x)))


def _cexp(x):
    if x != x:
        return nan
    if x == 0.0:
        return 1.0
    if x == -inf:
        return 0.0
    if x == inf:
        return inf
    return SymReal(E.EXP(lift(x)))


def _csqrt(x):
    if x != x or x < 0:
        return nan
    r = math.sqrt(x)
    return r


def _ssqrt(e):
    s = E.SQRT(e)
    E.cur().solver.add(z3.Implies(e >= 0, z3.And(s * s == e, s >= 0)))
    return s


CONCRETE_MATH = False  # concrete validation mode: evaluate transcendental functions numerically


def _mk_math(name, uf, conc, numeric):
    def f(a, **kw):
        def one(x):
            x = _unbox(x)
            if is_sym(x):
                if isinstance(x, (SymInt, SymBool)):
                    x = _cast(x, "f8")
                return SymReal(uf(x.e))
            x = float(x)
            if CONCRETE_MATH:
                return numeric(x)
            return conc(x)
        if isinstance(a, ndarray):
            return _ufunc1(a, one, "f8" if a._dt not in ("f4",) else "f4")
        if isinstance(a, (list, tuple)):
            return _ufunc1(array(a), one, "f8")
        return _box(one(a))
    f.__name__ = name
    return f


def _nlog(x):
    return math.log(x) if x > 0 else (-inf if x == 0 else nan)


def _nexp(x):
    try:
        return math.exp(x)
    except OverflowError:
        return inf


log = _mk_math("log", E.LOG, _clog, _nlog)
exp = _mk_math("exp", E.EXP, _cexp, _nexp)


def histogram(a, bins=10, range=None, density=None, weights=None):
    """numpy.histogram for concrete numbers and explicit bin edges (or an int number of equal-width bins): all bins are
    half-open except the last, which is closed"""
    if range is not None or density or weights is not None:
        raise ModelGap("np.histogram with range / density / weights")
    vals = [_unbox(v) for v in _as(a).flat]
    if isinstance(bins, int):
        if not vals:
            lo, hi = 0.0, 1.0
        else:
            lo, hi = float(min(vals)), float(max(vals))
            if lo == hi:
                lo, hi = lo - 0.5, hi + 0.5
        edges = [lo + (hi - lo) * i / bins for i in builtins_range(bins + 1)]
    else:
        edges = [_unbox(v) for v in _as(bins).flat]
    if any(isinstance(v, (SymInt, SymReal)) for v in vals + edges):
        raise ModelGap("np.histogram of symbolic values")
    if len(edges) < 2:
        raise ValueError("`bins` must have size >= 2" if False else "bins must have at least two edges")
    if any(edges[i] > edges[i + 1] for i in builtins_range(len(edges) - 1)):
        raise ValueError("`bins` must increase monotonically, when an array")
    counts = [0] * (len(edges) - 1)
    for v in vals:
        if v < edges[0] or v > edges[-1]:
            continue
        k = len(edges) - 2
        for i in builtins_range(len(edges) - 1):
            if v < edges[i + 1]:
                k = i
                break
        counts[k] += 1
    edt = "i8" if all(isinstance(e, int) for e in edges) else "f8"
    return ndarray.fresh(counts, (len(counts),), "i8"), ndarray.fresh(list(edges), (len(edges),), edt)


def logaddexp(a, b):
    return log(exp(a) + exp(b))
sqrt = _mk_math("sqrt", _ssqrt, _csqrt, _csqrt)


def isnan(a):
    if isinstance(a, ndarray):
        return _ufunc1(a, _isnan1, "b")
    return _isnan1(_unbox(a))


def isfinite(a):
    f = lambda x: not _sp(x)
    if isinstance(a, ndarray):
        return _ufunc1(a, f, "b")
    return f(_unbox(a))


def nan_to_num(a, nan=0.0):
    return _ufunc1(a, lambda x: nan if _isnan1(x) else x)


def clip(a, a_min=None, a_max=None):
    def c1(x, lo, hi):
        x = _unbox(x)
        if _isnan1(x):
            return x
        if lo is not None:
            x = _maxf(lo, x) if not is_sym(x) and not is_sym(lo) else ite(x < lo, lo, x)
        if hi is not None:
            x = _minf(hi, x) if not is_sym(x) and not is_sym(hi) else ite(x > hi, hi, x)
        return x
    if isinstance(a, (list, tuple)):
        a = array(a)
    if isinstance(a, ndarray):
        lo = broadcast_to(a_min, a.shape).flat if isinstance(a_min, ndarray) else [a_min] * a.size
        hi = broadcast_to(a_max, a.shape).flat if isinstance(a_max, ndarray) else [a_max] * a.size
        dt = a._dt if a._dt in ("f4", "f8") or not _bany(isinstance(x, (float, SymReal)) for x in (a_min, a_max)) else "f8"
        return ndarray.fresh([_cast(c1(x, l, h), dt) for x, l, h in zip(a.flat, lo, hi)], a.shape, dt)
    return _box(c1(a, a_min, a_max))


def maximum(a, b):
    return _ufunc2(a, b, lambda x, y: _maxf(_unbox(x), y)) if (isinstance(a, ndarray) or isinstance(b, ndarray)) else _box(_maxf(_unbox(a), b))


def minimum(a, b):
    return _ufunc2(a, b, lambda x, y: _minf(_unbox(x), y)) if (isinstance(a, ndarray) or isinstance(b, ndarray)) else _box(_minf(_unbox(a), b))


class finfo:
    def __init__(self, t=float):
        import sys as _s
        self.eps = _s.float_info.epsilon
        self.max = _s.float_info.max
        self.min = -_s.float_info.max
        self.tiny = _s.float_info.min


def abs_(a):
    return _ufunc1(a, lambda x: abs(x)) if isinstance(a, ndarray) else _box(abs(_unbox(a)))


absolute = abs_


def ceil(x):
    x = _unbox(x)
    if isinstance(x, ndarray):
        return _ufunc1(x, ceil, "f8")
    if isinstance(x, SymInt):
        return x
    if isinstance(x, SymReal):
        return sym_ceil(x)
    return F64(float(math.ceil(x)))


def sym_ceil(x):
    """integer c with c-1 < x <= c"""
    eng = E.cur()
    c = eng.fresh("ceil", z3.IntSort())
    eng.solver.add(z3.And(z3.ToReal(c) >= x.e, z3.ToReal(c) - 1 < x.e))
    return SymInt(c)


class errstate:
    def __init__(self, **kw):
        pass

    def __enter__(self):
        return self

    def __exit__(self, *a):
        return False


# --------------------------------------------------------------------------- selection / set ops
def _truth(x):
    return bool(x)


def nonzero(a):
    a = _as(a)
    if a._dt != "b":
        a = a != 0
    sel = [pos for pos, m in zip(_unravel(a.shape), a.flat) if _truth(m)]
    return tuple(ndarray.fresh([p[d] for p in sel], (len(sel),), "i8") for d in range(a.ndim))


def where(cond, x=None, y=None):
    if x is None and y is None:
        return nonzero(cond)
    cond = _as(cond)
    x, y = _as(x), _as(y)
    shape = _bshape([cond.shape, x.shape, y.shape])
    cv = broadcast_to(cond, shape).flat
    xv = broadcast_to(x, shape).flat
    yv = broadcast_to(y, shape).flat
    def pick(c, a, b):
        # a non-finite alternative (NaN / inf placeholders) cannot live inside a symbolic term: decide the condition on this
        # path (the engine forks when both outcomes are feasible)
        for v in (a, b):
            v0 = _unbox(v)
            if isinstance(v0, float) and (v0 != v0 or v0 in (float("inf"), float("-inf"))) and isinstance(_unbox(c), SymBool):
                return a if _truth(c) else b
        return ite(c, a, b)
    vals = [pick(c, a, b) for c, a, b in zip(cv, xv, yv)]
    return ndarray.fresh(vals, shape, _promote([x._dt, y._dt]))


def _lt(a, b):
    return _truth(a < b)


def _eqt(a, b):
    return _truth(_eq(a, b))


def _lex_less(r, s):
    for a, b in zip(r, s):
        if _lt(a, b):
            return True
        if not _eqt(a, b):
            return False
    return False


def _sort_positions(keys, less):
    """stable insertion sort; returns the permutation"""
    order = []
    for i in range(len(keys)):
        j = len(order)
        while j > 0 and less(keys[i], keys[order[j - 1]]):
            j -= 1
        order.insert(j, i)
    return order


def sort(a, axis=-1):
    a = _as(a)
    if a.ndim == 1:
        vals = a.flat
        order = _sort_positions(vals, _lt)
        return ndarray.fresh([vals[i] for i in order], a.shape, a._dt)
    if a.ndim == 2 and axis in (-1, 1):
        rows = [sort(a[i]).flat for i in range(a.shape[0])]
        return ndarray.fresh([v for r in rows for v in r], a.shape, a._dt)
    if a.ndim == 2 and axis == 0:
        return sort(a.T, axis=1).T.copy()
    raise ModelGap("sort of ndim>2")


def argsort(a, axis=-1, kind=None, order=None):
    a = _as(a)
    if order is not None or kind not in (None, "quicksort", "stable", "mergesort", "heapsort"):
        raise ModelGap("argsort kind=%r order=%r" % (kind, order))
    if a.ndim != 1:
        raise ModelGap("argsort ndim>1")
    order = _sort_positions(a.flat, _lt)
    return ndarray.fresh(order, a.shape, "i8")


def unique(a, return_index=False, return_counts=False, return_inverse=False, axis=None):
    a = _as(a)
    if axis is None:
        keys = a.flat
        less, same = _lt, _eqt
        mk = lambda ks: ndarray.fresh(ks, (len(ks),), a._dt)
    elif axis == 0 and a.ndim == 2:
        keys = [tuple(a[i].flat) for i in range(a.shape[0])]
        less = _lex_less
        same = lambda r, s: _ball(_eqt(x, y) for x, y in zip(r, s))
        mk = lambda ks: ndarray.fresh([v for k in ks for v in k], (len(ks), a.shape[1]), a._dt)
    else:
        raise ModelGap("unique with axis=%r" % (axis,))
    # group by equality first (first occurrence kept), then order the representatives
    reps, first, counts, inv = [], [], [], []
    plain = _plain_keys(keys)
    index = {}
    for i, k in enumerate(keys):
        if plain:  # concrete keys: group through a hash table (same groups, same first occurrences)
            k0 = _unbox(k) if not isinstance(k, tuple) else tuple(_unbox(x) for x in k)
            g = index.get(k0)
            if g is None:
                index[k0] = len(reps)
                reps.append(k)
                first.append(i)
                counts.append(1)
                inv.append(len(reps) - 1)
            else:
                counts[g] += 1
                inv.append(g)
            continue
        for g, r in enumerate(reps):
            if same(k, r):
                counts[g] += 1
                inv.append(g)
                break
        else:
            reps.append(k)
            first.append(i)
            counts.append(1)
            inv.append(len(reps) - 1)
    order = _sort_positions(reps, less)
    out = [mk([reps[g] for g in order])]
    if return_index:
        out.append(ndarray.fresh([first[g] for g in order], (len(order),), "i8"))
    if return_inverse:
        rank = {g: r for r, g in enumerate(order)}
        out.append(ndarray.fresh([rank[g] for g in inv], (len(inv),), "i8"))
    if return_counts:
        out.append(ndarray.fresh([counts[g] for g in order], (len(order),), "i8"))
    return out[0] if len(out) == 1 else tuple(out)


def _plain_keys(keys):
    for k in keys:
        for v in (k if isinstance(k, tuple) else (k,)):
            v = _unbox(v)
            t = type(v)
            if t is str or t is int or t is bool or (t is float and v == v):
                continue
            return False
    return True


def _flat_any(x):
    if isinstance(x, ndarray):
        return x.flat
    if isinstance(x, (set, frozenset)):
        return list(x)
    if isinstance(x, (list, tuple, range)):
        out = []
        for v in x:
            out.extend(_flat_any(v) if isinstance(v, (ndarray, list, tuple)) else [v])
        return out
    return [x]


def isin(a, b):
    a = _as(a)
    bv = [_unbox(v) for v in _flat_any(b)]

    def one(x):
        r = False
        for v in bv:
            r = _or(r, _eq(x, v))
        return r
    return ndarray.fresh([one(_unbox(x)) for x in a.flat], a.shape, "b")


def in1d(a, b):
    a = _as(a)
    return isin(a.reshape(-1), b)


def setdiff1d(a, b):
    u = unique(_as(a).reshape(-1))
    bv = [_unbox(v) for v in _flat_any(b)]
    keep = [x for x in u.flat if not _bany(_eqt(x, v) for v in bv)]
    return ndarray.fresh(keep, (len(keep),), u._dt)


def union1d(a, b):
    return unique(concatenate([_as(a).reshape(-1), _as(b).reshape(-1)]))


def intersect1d(a, b):
    u = unique(_as(a).reshape(-1))
    bv = [_unbox(v) for v in _flat_any(b)]
    keep = [x for x in u.flat if _bany(_eqt(x, v) for v in bv)]
    return ndarray.fresh(keep, (len(keep),), u._dt)


def array_equal(a, b):
    a, b = _as(a), _as(b)
    if a.shape != b.shape:
        return False
    return bool(all_(a == b))


# --------------------------------------------------------------------------- joining / splitting
def concatenate(arrs, axis=0):
    arrs = [_as(a) for a in arrs]
    if not arrs:
        raise ValueError("need at least one array to concatenate")
    if axis != 0:
        if axis in (1, -1) and _ball(a.ndim == 2 for a in arrs):
            return concatenate([a.T for a in arrs]).T.copy()
        raise ModelGap("concatenate axis %r" % axis)
    nd = arrs[0].ndim
    if nd == 0:
        raise ValueError("zero-dimensional arrays cannot be concatenated")
    for a in arrs:
        if a.ndim != nd:
            raise ValueError("all the input array dimensions except for the concatenation axis must match exactly")
    tail = arrs[0].shape[1:]
    vals, n = [], 0
    for a in arrs:
        if a.shape[1:] != tail:
            raise ValueError("all the input array dimensions except for the concatenation axis must match exactly")
        vals.extend(a.flat)
        n += a.shape[0]
    dts = [a._dt for a in arrs]
    if _ball(d in ("b", "i8", "f4", "f8") for d in dts):
        dt = _promote(dts)
    elif _ball(d == dts[0] for d in dts):
        dt = dts[0]
    elif _ball(d in ("U", "O") for d in dts):
        dt = "O"
    else:
        raise ModelGap("concatenate of mixed dtypes %s" % dts)
    return ndarray.fresh([_cast(v, dt) for v in vals], (n,) + tail, dt)


def vstack(arrs):
    arrs = [_as(a) for a in arrs]
    arrs = [a.reshape(1, -1) if a.ndim == 1 else a for a in arrs]
    return concatenate(arrs)


def hstack(arrs):
    arrs = [_as(a) for a in arrs]
    if _ball(a.ndim == 1 for a in arrs):
        return concatenate(arrs)
    return concatenate(arrs, axis=1)


def stack(arrs, axis=0, dtype=None):
    arrs = [_as(a) for a in arrs]
    if not arrs:
        raise ValueError("need at least one array to stack")
    if _bany(a.shape != arrs[0].shape for a in arrs):
        raise ValueError("all input arrays must have the same shape")
    r = concatenate([a.reshape((1,) + a.shape) for a in arrs])
    if dtype is not None:
        r = r.astype(dtype)
    return r


def _split_sizes(n, k):
    q, r = divmod(n, k)
    return [q + 1] * r + [q] * (k - r)


def array_split(a, k):
    islist = not isinstance(a, ndarray)
    if islist:
        objs = list(a)
        a = ndarray.fresh(objs, (len(objs),), "O") if objs and not isinstance(objs[0], (int, float, str, bool)) or not objs else array(objs)
        if not objs:
            a = ndarray.fresh([], (0,), "f8")
    k = _unbox(k)
    if isinstance(k, float):
        if k != int(k):
            raise TypeError("number of sections must be an integer")
        k = int(k)
    k = int(k)
    if k <= 0:
        raise ValueError("number sections must be larger than 0.")
    out, pos = [], 0
    for s in _split_sizes(a.shape[0], k):
        out.append(a[pos:pos + s])
        pos += s
    return out


def split(a, k, axis=0):
    a = _as(a)
    if axis not in (0, -a.ndim):
        if a.ndim == 2 and axis in (1, -1):
            return [p.T for p in split(a.T, k, 0)]
        raise ModelGap("split along axis %r" % (axis,))
    if isinstance(k, (list, tuple, ndarray)):
        cuts = [int(x) for x in (k.flat if isinstance(k, ndarray) else k)]
        out, pos = [], 0
        for c in cuts + [a.shape[0]]:
            c = _bmin(_bmax(c, 0), a.shape[0])
            out.append(a[pos:c] if c >= pos else a[pos:pos])
            pos = _bmax(pos, c) if c >= pos else pos
        return out
    k = int(k)
    if a.shape[0] % k:
        raise ValueError("array split does not result in an equal division")
    return array_split(a, k)


def isclose(a, b, rtol=1e-05, atol=1e-08, equal_nan=False):
    def one(x, y):
        x, y = _unbox(x), _unbox(y)
        if _isnan1(x) or _isnan1(y):
            return bool(equal_nan and _isnan1(x) and _isnan1(y))
        d = x - y
        ad = ite(d < 0, -d, d) if is_sym(d) else abs(d)
        ay = ite(y < 0, -y, y) if is_sym(y) else abs(y)
        return ad <= atol + rtol * ay
    if isinstance(a, ndarray) or isinstance(b, ndarray) or hasattr(a, "to_numpy") or hasattr(b, "to_numpy"):
        return _ufunc2(_as(a) if not isinstance(a, (int, float)) else a, _as(b) if not isinstance(b, (int, float)) else b, one, "b")
    return one(a, b)


def allclose(a, b, rtol=1e-05, atol=1e-08):
    return bool(all_(isclose(a, b, rtol, atol)))


def flip(a, axis=None):
    a = _as(a)
    if a.ndim == 1:
        return a[::-1]
    raise ModelGap("flip of ndim>1")


def tile(a, reps):
    a = _as(a)
    if a.ndim == 1 and isinstance(reps, int):
        return concatenate([a] * reps) if reps > 0 else a[:0]
    raise ModelGap("tile")


def append(a, v):
    return concatenate([_as(a).reshape(-1), _as(v).reshape(-1)])


def searchsorted(a, v, side="left"):
    a = _as(a)
    def one(x):
        c = 0
        for y in a.flat:
            c = c + ite((y < x) if side == "left" else (y <= x), 1, 0)
        return c
    if isinstance(v, ndarray):
        return _ufunc1(v, one, "i8")
    return _box(one(_unbox(v)))


def bincount(a, minlength=0):
    a = _as(a)
    vals = [int(x) for x in a.flat]
    n = _bmax([minlength] + [v + 1 for v in vals])
    out = [0] * n
    for v in vals:
        if v < 0:
            raise ValueError("'list' argument must have no negative elements")
        out[v] += 1
    return ndarray.fresh(out, (n,), "i8")


# --------------------------------------------------------------------------- linear algebra
def matmul(a, b):
    a, b = _as(a), _as(b)
    dt = _promote([a._dt, b._dt])
    zero = 0.0 if dt in ("f4", "f8") else 0
    if a.ndim == 2 and b.ndim == 1:
        n, m = a.shape
        if b.shape != (m,):
            raise ValueError("matmul: shape mismatch %s %s" % (a.shape, b.shape))
        av, bv = a.flat, b.flat
        out = []
        for i in range(n):
            r = zero
            for k in range(m):
                r = _add(r, _mul(av[i * m + k], bv[k]))
            out.append(r)
        return ndarray.fresh(out, (n,), dt)
    if a.ndim == 2 and b.ndim == 2:
        n, m = a.shape
        m2, p = b.shape
        if m != m2:
            raise ValueError("matmul: shape mismatch %s %s" % (a.shape, b.shape))
        av, bv = a.flat, b.flat
        out = []
        for i in range(n):
            for j in range(p):
                r = zero
                for k in range(m):
                    r = _add(r, _mul(av[i * m + k], bv[k * p + j]))
                out.append(r)
        return ndarray.fresh(out, (n, p), dt)
    if a.ndim == 1 and b.ndim == 1:
        if a.shape != b.shape:
            raise ValueError("matmul: shape mismatch")
        r = zero
        for x, y in zip(a.flat, b.flat):
            r = _add(r, _mul(x, y))
        return _box(r)
    if a.ndim == 1 and b.ndim == 2:
        return matmul(b.T, a)
    raise ModelGap("matmul shapes %s %s" % (a.shape, b.shape))


dot = matmul


def einsum(spec, a, b):
    if spec.replace(" ", "") == "ik,jk->ij":
        return matmul(a, _as(b).T)
    raise ModelGap("einsum %r" % spec)


class vectorize:
    def __init__(self, f):
        self.f = f

    def __call__(self, a):
        a = _as(a)
        vals = [_unbox(self.f(_unbox(x))) for x in a.flat]
        return ndarray.fresh(vals, a.shape, _infer_dt(vals) if vals else a._dt)


# --------------------------------------------------------------------------- np.char
class _Char:
    """byte strings are modelled as the same atom tagged with the codec used"""

    @staticmethod
    def encode(a, encoding=None, errors=None):
        a = _as(a)
        if a._dt != "U":
            raise TypeError("string operation on non-string array")
        if encoding not in (None, "utf-8", "utf8") or errors not in (None, "strict"):
            raise ModelGap("np.char.encode with lossy / non-default codec %r %r" % (encoding, errors))
        return ndarray.fresh(a.flat, a.shape, "S")

    @staticmethod
    def decode(a, encoding=None, errors=None):
        a = _as(a)
        if a._dt != "S":
            if a.size == 0:
                return ndarray.fresh([], a.shape, "U")
            raise TypeError("string operation on non-string array")
        if encoding not in (None, "utf-8", "utf8") or errors not in (None, "strict"):
            raise ModelGap("np.char.decode with lossy / non-default codec %r %r" % (encoding, errors))
        return ndarray.fresh(a.flat, a.shape, "U")


    @staticmethod
    def add(a, b):
        """element-wise concatenation of concrete strings (one operand may be a scalar)"""
        def conc(x):
            x = _unbox(x)
            if type(x).__name__ == "SymStr":
                raise ModelGap("np.char.add of a symbolic name")
            return x
        A = _as(a) if isinstance(a, (ndarray, list, tuple)) else None
        B = _as(b) if isinstance(b, (ndarray, list, tuple)) else None
        for X in (A, B):
            if X is not None and X._dt not in ("U", "O"):
                raise TypeError("string operation on non-string array")
        if A is None and B is None:
            return ndarray.fresh([conc(a) + conc(b)], (), "U")
        if A is None:
            return ndarray.fresh([conc(a) + conc(v) for v in B.flat], B.shape, "U")
        if B is None:
            return ndarray.fresh([conc(v) + conc(b) for v in A.flat], A.shape, "U")
        if A.shape != B.shape:
            raise ModelGap("np.char.add with broadcasting between arrays")
        return ndarray.fresh([conc(x) + conc(y) for x, y in zip(A.flat, B.flat)], A.shape, "U")

    # ---- element-wise string methods on concrete strings (symbolic names are atoms without characters: ModelGap)
    @staticmethod
    def _map(a, f, what):
        a = _as(a)
        if a._dt not in ("U", "O"):
            raise TypeError("string operation on non-string array")
        out = []
        for v in a.flat:
            v = _unbox(v)
            if type(v).__name__ == "SymStr":
                raise ModelGap("np.char.%s of a symbolic name" % what)
            out.append(f(v))
        return ndarray.fresh(out, a.shape, "U")


for _name in ("strip", "rstrip", "lstrip", "lower", "upper", "title", "capitalize", "swapcase"):
    setattr(_Char, _name, staticmethod(lambda a, chars=None, _n=_name: _Char._map(
        a, (lambda v: getattr(v, _n)(chars)) if _n in ("strip", "rstrip", "lstrip") else (lambda v: getattr(v, _n)()), _n)))
char = _Char()


class _Ma:
    class core:
        class MaskedArray:
            pass


ma = _Ma()
