"""CrossHair 0.0.110 as a cross-check (never the decider): PEP-316 contracts over the *real* functions.
'Confirmed over all paths' is recorded; a counterexample is reported as a disagreement (=> inconclusive) unless the
property's own harness also finds it; 'Not confirmed' / 'Unable to meet precondition' change nothing."""
import os
import re
import subprocess
import sys
import tempfile
import time


def run_contracts(source_text, per_condition_timeout=25, wall_timeout=240):
    d = tempfile.mkdtemp(prefix="bverif_ch_")
    path = os.path.join(d, "contracts.py")
    with open(path, "w") as f:
        f.write(source_text)
    t = time.time()
    try:
        p = subprocess.run([sys.executable, "-m", "crosshair", "check", "--report_all",
                            "--per_condition_timeout", str(per_condition_timeout), path],
                           capture_output=True, text=True, timeout=wall_timeout, cwd=d,
                           env=dict(os.environ, PYTHONPATH=os.environ.get("PYTHONPATH", "")))
        out = (p.stdout or "") + (p.stderr or "")
    except subprocess.TimeoutExpired:
        out = "timeout"
    finally:
        pass
    res = dict(confirmed=0, not_confirmed=0, counterexamples=[], wall_s=round(time.time() - t, 1), raw=out[-600:])
    for line in out.splitlines():
        if "Confirmed over all paths" in line:
            res["confirmed"] += 1
        elif "Not confirmed" in line or "Unable to meet precondition" in line:
            res["not_confirmed"] += 1
        elif "error:" in line and ("false when calling" in line or "raises" in line or "Postcondition" in line):
            res["counterexamples"].append(re.sub(r"^.*?:\d+: error: ", "", line)[:300])
    try:
        os.remove(path)
        os.rmdir(d)
    except OSError:
        pass
    return res
