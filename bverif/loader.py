"""Load batchie's unmodified source from /repo with its library imports replaced by
the models (DESIGN.md section 3.2).  Nothing in /repo is written; the source is
read on every run, so the encoding is regenerated from the working tree."""
import builtins
import hashlib
import importlib
import os
import sys
import types

from . import symnp, symlibs

CURRENT_PATCHES = None  # in-memory mutant patches of the current run (self-test), for sub-checks that read source text
REPO = os.environ.get("BVERIF_REPO", "/repo")
SRC = os.path.join(REPO, "src")


class Loader:
    def __init__(self, patches=None, extra_shims=None, builtin_overrides=None):
        """patches: {module_name: [(old, new), ...]} textual in-memory mutations (self-test only)"""
        self.registry = {}
        self.patches = patches or {}
        self.sources = {}
        from .ordset import OrderSet
        self.builtin_overrides = dict(open=symlibs.mem_open, set=OrderSet)
        self.builtin_overrides.update(builtin_overrides or {})
        npm = types.ModuleType("numpy")
        npm.__dict__.update({k: v for k, v in symnp.__dict__.items() if not k.startswith("__")})
        self.np_random = symlibs.make_random_module()
        npm.random = self.np_random
        linalg = types.ModuleType("numpy.linalg")
        linalg.cholesky = symlibs.cholesky

        def _solve(*a, **k):
            raise symlibs.ModelGap("np.linalg.solve")
        linalg.solve = _solve
        npm.linalg = linalg
        self.np = npm
        self.shims = {"numpy": npm, "numpy.random": self.np_random, "numpy.linalg": linalg,
                      "pandas": symlibs.make_pandas(), "h5py": symlibs.make_h5py(),
                      "tqdm": symlibs.make_tqdm(), "math": symlibs.make_math(), "warnings": symlibs.make_warnings()}
        self.shims.update(symlibs.make_scipy())
        imp = types.ModuleType("importlib")
        imp.import_module = self._import_module
        self.shims["importlib"] = imp
        if extra_shims:
            self.shims.update(extra_shims)

    def _import_module(self, name, package=None):
        if name == "batchie" or name.startswith("batchie."):
            return self.load(name)
        if name in self.shims:
            return self.shims[name]
        return importlib.import_module(name, package)

    def _find(self, name):
        p = os.path.join(SRC, *name.split("."))
        if os.path.isdir(p):
            return os.path.join(p, "__init__.py"), True
        return p + ".py", False

    def read_source(self, name, path):
        src = open(path).read()
        for old, new in self.patches.get(name, []):
            if old not in src:
                raise RuntimeError("mutant patch does not apply to %s: %r" % (name, old[:60]))
            src = src.replace(old, new, 1)
        self.sources[name] = dict(path=path, sha256=hashlib.sha256(src.encode()).hexdigest()[:16])
        return src

    def load(self, name):
        if name in self.registry:
            return self.registry[name]
        path, is_pkg = self._find(name)
        if not os.path.exists(path):
            raise ImportError("no module %s under %s" % (name, SRC))
        mod = types.ModuleType(name)
        mod.__file__ = path
        if is_pkg:
            mod.__path__ = [os.path.dirname(path)]
        self.registry[name] = mod
        bi = dict(builtins.__dict__)
        bi["__import__"] = self._import
        bi.update(self.builtin_overrides)
        mod.__dict__["__builtins__"] = bi
        src = self.read_source(name, path)
        # dataclasses look the defining module up in sys.modules
        prev = sys.modules.get(name)
        sys.modules[name] = mod
        try:
            exec(compile(src, path, "exec"), mod.__dict__)
        finally:
            if prev is not None:
                sys.modules[name] = prev
            else:
                del sys.modules[name]
        self._snapshot_containers(mod)
        if "." in name:
            parent, _, child = name.rpartition(".")
            setattr(self.load(parent), child, mod)
        return mod

    def _snapshot_containers(self, mod):
        """mutable containers a module keeps at module or class level, as they are right after import"""
        snaps = self.__dict__.setdefault("_containers", [])
        kinds = (list, dict, set)

        def note(v):
            if isinstance(v, kinds) and not any(v is c for c, _ in snaps):
                snaps.append((v, type(v)(v)))
        for k, v in list(vars(mod).items()):
            if k.startswith("__"):
                continue
            note(v)
            if isinstance(v, type) and getattr(v, "__module__", None) == mod.__name__:
                for ak, av in list(vars(v).items()):
                    if not ak.startswith("__"):
                        note(av)

    def _restore_containers(self):
        for c, init in self.__dict__.get("_containers", []):
            try:
                if isinstance(c, list):
                    c[:] = init
                else:
                    c.clear()
                    c.update(init)
            except Exception:
                pass

    def reset_state(self):
        """called at the start of every execution: memoisation caches that the code under test keeps at module or class
        level are emptied, so that nothing computed on one explored path is served on the next (within one execution they
        work as written), and lists / dicts / sets kept at module or class level get back the contents they had after import."""
        self._restore_containers()
        for mod in list(self.registry.values()):
            for obj in list(vars(mod).values()):
                self._clear(obj)
                if isinstance(obj, type) and getattr(obj, "__module__", None) == mod.__name__:
                    for attr in list(vars(obj).values()):
                        self._clear(getattr(attr, "__func__", attr))

    @staticmethod
    def _clear(obj):
        cc = getattr(obj, "cache_clear", None)
        if callable(cc):
            try:
                cc()
            except Exception:
                pass

    def load_file(self, name, path):
        """load a stand-alone script (nextflow/scripts/batchie.py)"""
        mod = types.ModuleType(name)
        mod.__file__ = path
        bi = dict(builtins.__dict__)
        bi["__import__"] = self._import
        bi.update(self.builtin_overrides)
        mod.__dict__["__builtins__"] = bi
        src = self.read_source(name, path)
        exec(compile(src, path, "exec"), mod.__dict__)
        self.registry[name] = mod
        return mod

    def _resolve(self, n):
        if n in self.shims:
            return self.shims[n]
        if n == "batchie" or n.startswith("batchie."):
            return self.load(n)
        return None

    def _import(self, name, globals=None, locals=None, fromlist=(), level=0):
        if level != 0:
            raise ImportError("relative imports not supported by the verification loader")
        top = name.split(".")[0]
        if top in self.shims or top == "batchie" or name in self.shims:
            m = self._resolve(name)
            if m is None:
                raise ImportError("no model for " + name)
            if fromlist:
                for f in fromlist:
                    if not hasattr(m, f):
                        sub = self._resolve(name + "." + f)
                        if sub is not None:
                            setattr(m, f, sub)
                return m
            return self._resolve(top)
        return importlib.__import__(name, globals, locals, fromlist, level)

    def functions_encoded(self):
        return [dict(module=k, **v) for k, v in sorted(self.sources.items())]
