"""./check --selftest mutants [PROP ...] [--tier quick]   : every catalogue mutant of the property must be reported
   ./check --selftest mutant <id>                           : run one"""
import json, os, subprocess, sys, tempfile, time
from concurrent.futures import ThreadPoolExecutor
from . import mutants as cat

EQUIVALENT = {"c01e", "c04b", "c05f", "c13a", "c12d", "c15b", "c19a", "c19b"}
KILLED_BY_SUITE = set("c01a c01b c01c c01f c02c c02d c05g c06a c06b c06d c06e c07a c07b c07c c09a c11a c11b c11d c12a c12c c13b c13d c14c c15a c17c c20c".split())


from .util import module_of


def run_mutant(m, tier="quick", jobs=4):
    patch = {module_of(m["file"]): [[m["old"], m["new"]]]}
    with tempfile.NamedTemporaryFile("w", suffix=".json", delete=False) as f:
        json.dump(patch, f)
    t = time.time()
    env = dict(os.environ, BVERIF_JOBS=str(jobs))
    p = subprocess.run([sys.executable, "-m", "bverif.run", m["prop"], "--tier", tier, "--mutant", f.name, "--no-evidence"],
                       capture_output=True, text=True, env=env)
    os.unlink(f.name)
    return p.returncode, p.stdout[-1500:] + p.stderr[-800:], time.time() - t


def main():
    args = sys.argv[1:]
    tier = "quick"
    if "--tier" in args:
        i = args.index("--tier"); tier = args[i + 1]; del args[i:i + 2]
    if args and args[0] == "mutant":
        m = next(x for x in cat.M if x["id"] == args[1])
        rc, out, dt = run_mutant(m, tier, jobs=16)
        print(out); print("exit", rc, "%.1fs" % dt)
        return 0
    props = [a.upper() for a in args[1:]] if len(args) > 1 else None
    todo = [m for m in cat.M if (props is None or m["prop"] in props) and os.path.exists("bverif/harness/%s.py" % m["prop"].lower())]
    bad = 0
    with ThreadPoolExecutor(4) as ex:
        for m, (rc, out, dt) in zip(todo, ex.map(lambda m: run_mutant(m, tier), todo)):
            expect = 0 if m["id"] in EQUIVALENT else 1
            status = "ok" if rc == expect else "MISSED" if expect == 1 else "FALSE-ALARM"
            if rc != expect:
                bad += 1
            print("%-6s %-4s exit=%d expected=%d %-11s %5.1fs  %s" % (m["id"], m["prop"], rc, expect, status, dt, m["note"]), flush=True)
            if rc != expect:
                print("      " + out.strip().replace("\n", "\n      ")[-700:])
    return 1 if bad else 0


sys.exit(main())
