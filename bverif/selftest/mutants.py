"""Catalogue of candidate mutants (probe). Each: id, property, file (relative to /repo), old, new."""
S = "src/batchie/"
M = []


def m(mid, prop, f, old, new, note=""):
    M.append(dict(id=mid, prop=prop, file=f, old=old, new=new, note=note))


# ---- C01
m("c01a", "C01", S + "data.py", 'dose_is_zero = df_unique["dose"] <= 0', 'dose_is_zero = df_unique["dose"] < 0', "zero dose no longer control")
m("c01b", "C01", S + "data.py", "is_control = dose_is_zero | treatment_is_control", "is_control = dose_is_zero & treatment_is_control", "control needs both")
m("c01c", "C01", S + "data.py", """        self._treatment_ids = np.vstack(
            np.split(all_dose_class_combos_encoded, treatment_names.shape[1])
        ).T""", """        self._treatment_ids = all_dose_class_combos_encoded.reshape(
            treatment_names.shape
        )""", "row-major reshape instead of column split")
m("c01d", "C01", S + "data.py", """    if CONTROL_SENTINEL_VALUE in arr:
        return np.all(""", """    if CONTROL_SENTINEL_VALUE in arr:
        return True
        return np.all(""", "mapping validation skipped when sentinel present")
m("c01e", "C01", S + "data.py", 'df_unique["new_index"] = df_unique.index - df_unique.is_control.cumsum()', 'df_unique["new_index"] = df_unique.index - df_unique.is_control.cumsum().shift(1, fill_value=0)', "cumsum shifted (expected equivalent)")
m("c01f", "C01", S + "data.py", """                df.drop_duplicates()
                .sort_values(by=["name", "dose"])""", """                df.drop_duplicates(subset=["name"])
                .sort_values(by=["name", "dose"])""", "dedupe by name only: second dose of a drug unmapped")
# ---- C02
m("c02a", "C02", S + "data.py", """                sample_mapping=(
                    np.char.decode(f["sample_mapping_names"][:], "utf-8"),
                    f["sample_mapping_ids"][:],
                ),
""", "", "loader drops stored sample mapping")
m("c02b", "C02", S + "data.py", """                treatment_mapping=(
                    np.char.decode(f["treatment_mapping_names"][:], "utf-8"),
                    f["treatment_mapping_doses"][:],
                    f["treatment_mapping_ids"][:],
                ),
""", "", "loader drops stored treatment mapping")
m("c02c", "C02", S + "data.py", 'f.create_dataset("observations", data=self.observations, compression="gzip")', 'f.create_dataset("observations", data=self.observations.astype(np.float32), compression="gzip")', "observations stored as float32")
m("c02d", "C02", S + "data.py", '                control_treatment_name=f.attrs["control_treatment_name"],\n                sample_mapping=(', '                sample_mapping=(', "control name not restored")
# ---- C03 (beyond the defect already present)
m("c03a", "C03", S + "retrospective.py", """        observation_mask=np.ones(np.count_nonzero(selection_vector), dtype=bool),
        treatment_mapping=screen.treatment_mapping,
        sample_mapping=screen.sample_mapping,
    )

    return keep_screen, holdout_screen


def reveal_plates(""", """        observation_mask=np.ones(np.count_nonzero(selection_vector), dtype=bool),
    )

    return keep_screen, holdout_screen


def reveal_plates(""", "hold-out screen re-encodes its ids")
# ---- C04
m("c04a", "C04", S + "core.py", """        if not data.observation_mask.all():
            raise ValueError("Cannot add data with masked observations")
""", "", "masked rows no longer refused")
m("c04b", "C04", S + "models/sparse_combo.py", "            if mask:\n                self.wrapped_model._update(y=y, cl=cl, dd1=dd[0], dd2=dd[1])", "            if True:\n                self.wrapped_model._update(y=y, cl=cl, dd1=dd[0], dd2=dd[1])", "mask ignored in the model (core check still there)")
m("c04c", "C04", S + "models/sparse_combo.py", "np.clip(data.observations.astype(np.float32), a_min=0.01, a_max=0.99)", "np.clip(data.observations.astype(np.float32), a_min=0.0, a_max=1.0)", "clip bounds not as documented")
m("c04d", "C04", S + "cli/train_model.py", "        model.add_observations(observed_subset)", "        model.add_observations(observed_subset)\n        model.add_observations(observed_subset)", "every observation used twice")
# ---- C05
G = S + "scoring/gaussian_dbal.py"
m("c05a", "C05", G, "mask[:, idx1, :] * 0.5 * np.log(1.0 / alpha)", "0.5 * np.log(1.0 / alpha)", "padding mask lost")
m("c05b", "C05", G, "d12 = padded_variances[:, idx3, :] * np.square(", "d12 = padded_variances[:, idx2, :] * np.square(", "wrong variance in triple term")
m("c05c", "C05", G, "result[i, : array.shape[0], : array.shape[1]] = array", "result[i, : array.shape[0], -array.shape[1] :] = array", "ragged copy right-aligned")
m("c05d", "C05", G, "            + distance_matrix[idx1, idx3]\n", "            + distance_matrix[idx1, idx1]\n", "index mix-up in triple distance")
m("c05e", "C05", G, "/ np.square(alpha)", "/ alpha", "exp factor wrong power")
m("c05f", "C05", G, "padded_variances = np.nan_to_num(variances, nan=1.0)", "padded_variances = np.nan_to_num(variances, nan=2.0)", "equivalent: padding variance value irrelevant")
m("c05g", "C05", G, "            result.update(dict(zip(plate_subgroup, vals)))", "            result.update(dict(zip(plate_subgroup, vals[::-1])))", "scores assigned to wrong plates in a subgroup")
# ---- C06
SM = S + "scoring/main.py"
m("c06a", "C06", SM, """        unobserved_plates = [
            plate
            for plate in unobserved_plates
            if plate.plate_id not in batch_plate_ids
        ]""", """        unobserved_plates = [plate for plate in unobserved_plates]""", "batch plates scored again")
m("c06b", "C06", SM, "return self.plate_ids[mask][self.scores[mask].argmin()].item()", "return self.plate_ids[mask][self.scores.argmin() % mask.sum()].item()", "argmin over all scores, indexed into eligible")
m("c06c", "C06", SM, "        if not plate.is_observed and plate.plate_id not in batch_plate_ids\n", "        if plate.plate_id not in batch_plate_ids\n", "observed plates become selectable")
m("c06d", "C06", SM, "self.plate_ids = np.concatenate((self.plate_ids, other.plate_ids))", "self.plate_ids = np.concatenate((other.plate_ids, self.plate_ids))", "ids and scores misaligned after combine")
m("c06e", "C06", SM, "chunk_plates = np.array_split(unobserved_plates, n_chunks)[chunk_index].tolist()", "chunk_plates = np.array_split(unobserved_plates[:-1] if n_chunks > 1 else unobserved_plates, n_chunks)[chunk_index].tolist()", "last plate never scored when chunked")
# ---- C07
DC = S + "distance_calculation.py"
m("c07a", "C07", DC, "    if chunk_index < remainder:", "    if chunk_index <= remainder:", "remainder arithmetic")
m("c07b", "C07", DC, "        end_index += chunk_index + 1", "        end_index += chunk_index", "remainder arithmetic")
m("c07c", "C07", DC, "            dense[self.col_indices[i], self.row_indices[i]] = self.values[i]\n", "", "dense matrix not symmetric")
m("c07d", "C07", DC, """            if (row, col) not in zip(
                composed.row_indices[: composed.current_index],
                composed.col_indices[: composed.current_index],
            ):
                composed.add_value(row, col, value)""", """            composed.add_value(row, col, value)""", "duplicate suppression lost")
m("c07e", "C07", S + "distance/mse.py", "return np.mean((a - b) ** 2)", "return np.mean(a - b) ** 2", "square of mean instead of mean of squares")
m("c07f", "C07", DC, "        result.add_value(i, j, value)", "        result.add_value(i, j, value if i != len(indices) else 0.0)", "equivalent-ish placeholder", )
# ---- C08
SC = S + "models/sparse_combo.py"
m("c08a", "C08", SC, "resid = y[cidx] - self.Mu[cidx] + self.W0[c]", "resid = y[cidx] - self.Mu[cidx] - self.W0[c]", "sign error in residual")
m("c08b", "C08", SC, "mean = self.prec * resid.sum() / (self.prec * N + self.tau0)", "mean = resid.sum() / (self.prec * N + self.tau0)", "dropped precision factor")
m("c08c", "C08", SC, "                self.Mu[cidx] += X @ self.W[c] - old_contrib", "                self.Mu[cidx] += 0 * (X @ self.W[c] - old_contrib)", "stale fitted-value cache")
m("c08d", "C08", SC, "        self._V1_step()\n", "", "block omitted from sweep")
m("c08e", "C08", SC, "        an = self.a0 + 0.5 * self.n_obs()\n", "        an = self.a0 + self.n_obs()\n", "wrong gamma shape")
m("c08f", "C08", S + "fast_mvn.py", "result = solve_triangular(Lt, z, lower=False)", "result = solve_triangular(Lt.T, z, lower=True)", "wrong triangular system (covariance Q^-1 lost)")
m("c08g", "C08", SC, "            alpha=self.wrapped_model.alpha,\n", "            alpha=0.0,\n", "exported sample drops the intercept")
# ---- C09
m("c09a", "C09", S + "common.py", "    results[treatment_array == CONTROL_SENTINEL_VALUE, ...] = 0.0\n", "", "control rows not zeroed (last row leaks)")
m("c09b", "C09", SC, """            + copy_array_with_control_treatments_set_to_zero(
                mcmc_sample.V1, data.treatment_ids[:, 1]
            )
        ),
        -1,
    )
    intercept = (""", """            + copy_array_with_control_treatments_set_to_zero(
                mcmc_sample.V1, data.treatment_ids[:, 0]
            )
        ),
        -1,
    )
    intercept = (""", "first column used twice: asymmetric")
m("c09c", "C09", SC, "        v = np.repeat(1 / self.precision, repeats=data.size)", "        v = np.repeat(self.precision, repeats=data.size)", "variance = precision")
m("c09d", "C09", S + "models/main.py", "    return result / thetas.n_thetas\n\n\ndef predict_viability_avg", "    return result / len(thetas.thetas[:-1] or [1])\n\n\ndef predict_viability_avg", "mean average divides by n-1")
# ---- C10
C = S + "core.py"
m("c10a", "C10", C, "theta_keys = sorted(list(private_grp.keys()), key=int)", "theta_keys = sorted(list(private_grp.keys()))", "string order of sample groups")
m("c10b", "C10", C, "result.thetas = self.thetas + other.thetas", "result.thetas = other.thetas + self.thetas", "chain order reversed on combine")
m("c10c", "C10", C, "        if len(self.thetas) >= self.n_thetas:", "        if len(self.thetas) > self.n_thetas:", "holder grows beyond declared size")
m("c10d", "C10", S + "cli/evaluate_model.py", "        chain_ids.extend([i] * t.n_thetas)", "        chain_ids.extend([len(theta_holders) - 1 - i] * t.n_thetas)", "chain labels reversed (equal-length chains)")
m("c10e", "C10", C, "                        i_grp.create_dataset(key, data=val, compression=\"gzip\")", "                        i_grp.create_dataset(key, data=val.astype(np.float32), compression=\"gzip\")", "parameters stored as float32")
# ---- C11
R = S + "retrospective.py"
m("c11a", "C11", R, "        if plate.is_observed:\n            continue\n\n        n_sample = math.ceil(plate.size * fraction)", "        n_sample = math.ceil(plate.size * fraction)", "hold-out drawn from observed plates too")
m("c11b", "C11", R, "        n_sample = math.ceil(plate.size * fraction)", "        n_sample = math.floor(plate.size * fraction)", "floor instead of ceil")
m("c11c", "C11", R, """            observations=to_permute.observations,
            sample_names=to_permute.sample_names,
            plate_names=new_plate_names,""", """            observations=rng.permutation(to_permute.observations),
            sample_names=to_permute.sample_names,
            plate_names=new_plate_names,""", "observation values shuffled between rows")
m("c11d", "C11", R, """        observation_mask=screen.observation_mask[~selection_vector],
        treatment_mapping=screen.treatment_mapping,""", """        observation_mask=np.zeros(np.count_nonzero(~selection_vector), dtype=bool),
        treatment_mapping=screen.treatment_mapping,""", "training mask wiped")
# ---- C12
m("c12a", "C12", R, "        observation_mask=screen.observation_mask | reveal_mask,", "        observation_mask=reveal_mask,", "reveal hides previously observed plates")
m("c12b", "C12", S + "data.py", "        self._observation_mask[selection_mask] = True", "        self._observation_mask[:] = True", "set_observed marks everything")
m("c12c", "C12", R, "    reveal_mask = np.isin(screen.plate_ids, plate_ids)", "    reveal_mask = np.isin(screen.plate_ids, plate_ids) | (screen.plate_ids == np.max(plate_ids) + 1)", "reveals one plate too many")
m("c12d", "C12", S + "cli/extract_screen_metadata.py", "        if plate.is_observed:", "        if plate.observation_mask.any():", "equivalent under atomicity")
# ---- C13
m("c13a", "C13", R, "            if plate.size < self.plate_size:", "            if plate.size <= self.plate_size - 1 and plate.size != self.plate_size - 1:", "plates one short are kept whole")
m("c13b", "C13", R, "                if (smallest_plate.size + second_smallest_plate.size) > self.min_size:", "                if (smallest_plate.size + second_smallest_plate.size) >= self.min_size:", "merge stops one early")
m("c13c", "C13", R, "        i = np.argmax(plate_sizes * (len(plate_sizes) - np.arange(len(plate_sizes))))", "        i = np.argmax(plate_sizes * (len(plate_sizes) - np.arange(len(plate_sizes)) - 1))", "optimal size not optimal")
m("c13d", "C13", R, "            if plate_count < self.min_n_cell_line_plates:", "            if plate_count < self.min_n_cell_line_plates - 1:", "per-sample minimum off by one")
# ---- C14
D = S + "data.py"
m("c14a", "C14", D, "        original_selection_vector = self.selection_vector.copy()", "        original_selection_vector = self.selection_vector", "nested subset mutates the outer view")
m("c14b", "C14", D, "        return Plate(self.screen, ~self.selection_vector)", "        return Plate(self.screen, ~self.selection_vector | ~self.screen.observation_mask)", "invert is not the complement")
m("c14c", "C14", S + "common.py", "    _, unique_indices = np.unique(combined, axis=0, return_index=True)", "    _, unique_indices = np.unique(combined[:, :-1], axis=0, return_index=True)", "last treatment column ignored by the unique filter")
# ---- C15
m("c15a", "C15", G, "        while current_index - n_ck > index:", "        while current_index - n_ck >= index:", "boundary index maps to wrong tuple")
m("c15b", "C15", G, "            n_ck *= n - k\n", "            n_ck *= n - k + 0 * (n_ck % 7 == 3)\n", "equivalent placeholder")
# ---- C16
K = S + "policies/k_per_sample.py"
m("c16a", "C16", K, "            if v < self.k:\n                sample_ids_with_insufficient_plates.add(sample_id)", "            if v < self.k - 1:\n                sample_ids_with_insufficient_plates.add(sample_id)", "opens a sample with k-1 plates")
m("c16b", "C16", K, "            if v < self.k:\n                sample_chosen = sample_id", "            if v < self.k - 1:\n                sample_chosen = sample_id", "sample released one plate early")
# ---- C17
SA = S + "sampling.py"
m("c17a", "C17", SA, "if ((step_index + 1) % thin) == 0:", "if (step_index % thin) == 0:", "records states one step early")
m("c17b", "C17", SA, "rng = numpy.random.default_rng(seeds[chain_index])", "rng = numpy.random.default_rng(seeds[0])", "all chains share a stream")
m("c17c", "C17", SA, "            for _ in trange(n_burnin, disable=not progress_bar):", "            for _ in trange(n_burnin + 1, disable=not progress_bar):", "one extra burn-in step")
# ---- C18
m("c18a", "C18", S + "cli/prepare_retrospective_simulation.py", "    rng = get_prng_from_seed_argument(args)", "    rng = np.random.default_rng()", "seed ignored in preparation")
m("c18b", "C18", S + "scoring/rand.py", "scores = {k: rng.random() for k in plates.keys()}", "scores = {k: np.random.random() for k in plates.keys()}", "global generator in random scorer")
m("c18c", "C18", G, "    unpacked_indices = rng.choice(n_theta_combinations, size=n_combos, replace=False)", "    unpacked_indices = np.random.choice(n_theta_combinations, size=n_combos, replace=False)", "global generator in triple sub-sampling")
# ---- C19
N = "nextflow/scripts/batchie.py"
m("c19a", "C19", N, "    if current_plate_idx >= batch_size - 1:", "    if current_plate_idx > batch_size - 1:", "batch runs one plate long")
m("c19b", "C19", N, """    # clear job output dir incase some partial results were written
    shutil.rmtree(job_output_dir, ignore_errors=True)
    os.makedirs(job_output_dir, exist_ok=True)

    logger.info(f"Running iteration {current_iter_index}, plate {current_plate_idx}")

    if (current_iter_index, current_plate_idx) == (0, 0):""", """    os.makedirs(job_output_dir, exist_ok=True)

    logger.info(f"Running iteration {current_iter_index}, plate {current_plate_idx}")

    if (current_iter_index, current_plate_idx) == (0, 0):""", "partial outputs of an interrupted step are kept")
# ---- C20
MM = S + "models/main.py"
m("c20a", "C20", MM, "            ((self.predictions - self.observations[:, None]) ** 2).mean(axis=1)\n        )", "            ((self.predictions - self.observations[:, None]) ** 2).mean(axis=0)\n        )", "variance across samples instead of experiments")
m("c20b", "C20", S + "data.py", "            single_effect = np.mean(single_treatment_observations[mask])", "            single_effect = single_treatment_observations[mask][-1]", "last measurement instead of mean")
m("c20c", "C20", S + "synergy.py", "        synergy = np.prod(single_effects) - observation", "        synergy = observation - np.prod(single_effects)", "sign of synergy")
m("c20d", "C20", MM, "        return np.var(np.array(mses))", "        return np.var(np.array(mses), ddof=1) if len(mses) > 2 else np.var(np.array(mses))", "different estimator with > 2 chains")
m("c20e", "C20", MM, "        predictions.append(predict_viability_avg(combinatoric_space, thetas))", "        predictions.append(predict_viability_avg(combinatoric_space, thetas)[: max(2, combinatoric_space.size - 1)])", "one combination dropped from the similarity")
