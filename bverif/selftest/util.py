def module_of(path):
    if path.startswith("src/"):
        return path[4:-3].replace("/", ".")
    if path.endswith("scripts/batchie.py"):
        return "nextflow_script"
    raise ValueError(path)
