#!/usr/bin/env python3
"""validate MANIFEST.json and evidence/*.json against the given schemas (uses python3-vt's jsonschema)"""
import glob, json, sys
import jsonschema
ok = True
def chk(path, schema):
    global ok
    try:
        jsonschema.validate(json.load(open(path)), json.load(open(schema)))
        print("ok   ", path)
    except Exception as e:
        ok = False
        print("FAIL ", path, str(e)[:300])
chk("/verif/MANIFEST.json", "/root/.vp/MANIFEST.schema.json")
for f in sorted(glob.glob("/verif/evidence/*.json")):
    chk(f, "/root/.vp/EVIDENCE.schema.json")
sys.exit(0 if ok else 1)
