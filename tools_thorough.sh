#!/bin/sh
# run every thorough tier once, sequentially; log wall time and verdict lines
cd /verif
for c in ${@:-C01 C02 C03 C04 C05 C06 C07 C08 C09 C10 C11 C12 C13 C14 C15 C16 C17 C18 C19 C20}; do
  s=$(date +%s)
  ./check $c --tier thorough --no-evidence 2>&1 | grep -v KNOWN | grep -E "tier=|INCON|VIOL" | cut -c1-260
  echo "$c thorough wall $(( $(date +%s) - s )) s exit-lines-above"
done
