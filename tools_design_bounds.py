"""regenerates section 0.6 of DESIGN.md (bounds per property as built) from the harness modules:
   .venv/bin/python tools_design_bounds.py"""
import importlib

out = ["### 0.6 Bounds per property as built (generated from the harness modules; the `B` lines of section 4 are the round-0 plan)\n"]
for i in range(1, 21):
    H = importlib.import_module("bverif.harness.c%02d" % i)
    out.append("**C%02d** - quick: %s\n" % (i, H.BOUNDS["quick"]))
    out.append("thorough: %s\n" % H.BOUNDS["thorough"])
    out.append("outside the claim: %s\n" % "; ".join(H.OUTSIDE))
new = "\n".join(out)
p = "/verif/DESIGN.md"
s = open(p).read()
marker = "The twenty properties in `properties.jsonl` are fixed."
a, b = s.index("### 0.6 Bounds per property as built"), s.index(marker)
open(p, "w").write(s[:a] + new + "\n" + s[b:])
print("section 0.6 rewritten (%d characters)" % len(new))
