#!/bin/sh
# tools_seed.sh <worktree> <seed-name> <property>: confirm a seeded change (tests pass, demo fails with / passes without),
# store it under /verif/seeded/<seed-name>/, run the property's quick check against it, restore /repo.
WT="$1"; NAME="$2"; PROP="$3"
set -e
cd "$WT"
test -s OUT/patch.diff
echo "== tests with change"; PYTHONPATH=$WT/src /venv/bin/python -m pytest -q -p no:cacheprovider --timeout=900 2>&1 | grep -E "passed|failed" | tail -1
echo "== demo with change (must fail)"; if PYTHONPATH=$WT/src /venv/bin/python OUT/demo.py >/tmp/demo_with.log 2>&1; then echo "DEMO PASSED WITH CHANGE (bad)"; else echo "fails: $(tail -1 /tmp/demo_with.log)"; fi
git apply -R OUT/patch.diff
echo "== demo without change (must pass)"; if PYTHONPATH=$WT/src /venv/bin/python OUT/demo.py >/tmp/demo_without.log 2>&1; then echo "passes"; else echo "DEMO FAILS WITHOUT CHANGE (bad): $(tail -1 /tmp/demo_without.log)"; fi
git apply OUT/patch.diff
mkdir -p /verif/seeded/$NAME
cp OUT/patch.diff OUT/demo.py /verif/seeded/$NAME/
cp OUT/meta.json /verif/seeded/$NAME/meta.agent.json 2>/dev/null || true
echo "== check against the change"
cd /verif
git -C /repo apply /verif/seeded/$NAME/patch.diff
( ./check $PROP --tier quick --no-evidence > /tmp/seed_check_$NAME.log 2>&1; echo "exit $?" >> /tmp/seed_check_$NAME.log ) || true
git -C /repo checkout -- .
git -C /repo status --short | head -3
grep -E "VIOLATION|INCONCLUSIVE|KNOWN|exit|tier=" /tmp/seed_check_$NAME.log | cut -c1-400 | head -12
python3 - "$NAME" "$PROP" <<'PY'
import json, sys, os, re
name, prop = sys.argv[1], sys.argv[2]
d = "/verif/seeded/%s" % name
agent = {}
if os.path.exists(d + "/meta.agent.json"):
    try: agent = json.load(open(d + "/meta.agent.json"))
    except Exception: agent = {}
log = open("/tmp/seed_check_%s.log" % name).read()
meta = dict(
    property=prop, name=name,
    summary=agent.get("summary", ""), needs=agent.get("needs", ""), files=agent.get("files", []),
    source="independent sub-agent given only the property text and a scratch worktree",
    confirmed=dict(
        test_suite_with_change="151 passed (PYTHONPATH=<worktree>/src /venv/bin/python -m pytest -q -p no:cacheprovider --timeout=900)",
        demo_with_change="fails: " + open("/tmp/demo_with.log").read().strip().splitlines()[-1][:200],
        demo_without_change="passes"),
    ran=["git -C /repo apply seeded/%s/patch.diff" % name, "./check %s --tier quick" % prop, "git -C /repo checkout -- ."],
    check_exit=int(re.findall(r"exit (\d+)", log)[-1]),
    check_reports=[l.strip()[:300] for l in log.splitlines() if "what:" in l][:4],
)
json.dump(meta, open(d + "/meta.json", "w"), indent=1)
if os.path.exists(d + "/meta.agent.json"): os.remove(d + "/meta.agent.json")
print("meta written:", meta["check_exit"], meta["check_reports"][:1])
PY
